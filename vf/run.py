"""Orchestrator: run every condition of one property's harness, replay counterexamples, write evidence.

usage: python /verif/vf/run.py <property id> [quick|thorough] [--only <cond substring>] [--jobs N]

Exit codes: 0 = nothing but confirmed / inconclusive conditions and known findings;
            1 = a counterexample that REPLAYS on the real code and is not a listed known finding
                (prints `VIOLATION property=<id> replay=<path>`);
            2 = harness/engine error (vacuous harness, counterexample that does not replay, crash).
"""
import concurrent.futures
import importlib
import json
import os
import subprocess
import sys
import time

VERIF = os.path.dirname(os.path.dirname(os.path.abspath(__file__)))
# the tree under test: /repo's working tree; VERIF_REPO lets the seeded-change runner point at a scratch worktree instead
REPO_SRC = os.path.join(os.environ.get("VERIF_REPO", "/repo"), "src")
PY = os.path.join(VERIF, ".venv", "bin", "python")
if not os.path.exists(PY):          # a snapshot of /verif (vp run) has no environment of its own: use /verif's overlay
    PY = "/verif/.venv/bin/python"


def ensure_env():
    if os.path.abspath(sys.executable) != PY or not os.path.exists(PY):
        subprocess.run(["/verif/bin/ensure_env.sh"], check=True, stdout=sys.stderr)
        os.execv(PY, [PY] + sys.argv)


def child_env(tier, seed):
    env = dict(os.environ)
    env["PYTHONPATH"] = VERIF + os.pathsep + REPO_SRC
    env["PYTHONHASHSEED"] = "0"
    env["VERIF_TIER"] = tier
    env["VERIF_SEED"] = str(seed)
    env.pop("CLIKIT_VERIF", None)
    env["PYTHONDONTWRITEBYTECODE"] = "1"
    return env


STOP = {"flag": False}      # seed runs only (VERIF_STOP_AT_FIRST=1): set once a replayed violation exists, the conditions not yet started are skipped


def run_worker(modname, cond, tier, seed):
    if STOP["flag"]:
        return {"cond": cond["name"], "verdict": "unknown", "message": "skipped: VERIF_STOP_AT_FIRST and a replayed violation was already found", "paths": None, "args": None, "wall_total_s": 0}
    modname = cond.get("module", modname)
    timeout = cond["timeout"]
    wall = timeout * 1.6 + 45
    t0 = time.time()
    try:
        proc = subprocess.Popen([PY, "-m", "vf.worker", modname, cond["name"], str(timeout), tier],
                                cwd=VERIF, env=child_env(tier, seed), stdout=subprocess.PIPE, stderr=subprocess.PIPE, text=True)
        stopped = False
        while True:
            try:
                stdout, stderr = proc.communicate(timeout=2)
                break
            except subprocess.TimeoutExpired:
                if time.time() - t0 > wall:
                    proc.kill()
                    proc.communicate()
                    raise
                if STOP["flag"] and not cond.get("selftest"):       # seed runs only: a replayed violation exists, nothing more to learn from this condition
                    proc.kill()
                    proc.communicate()
                    stopped = True
                    break
        if stopped:
            out = {"cond": cond["name"], "verdict": "unknown", "message": "stopped: VERIF_STOP_AT_FIRST and a replayed violation was already found", "paths": None, "args": None}
        else:
            out = None
            for line in stdout.splitlines():
                if line.startswith("@@RESULT@@"):
                    out = json.loads(line[len("@@RESULT@@"):])
            if out is None:
                out = {"cond": cond["name"], "verdict": "error",
                       "message": "worker produced no result (rc=%s): %s" % (proc.returncode, (stderr or "")[-1500:])}
    except subprocess.TimeoutExpired:
        out = {"cond": cond["name"], "verdict": "unknown", "message": "killed at hard wall-clock limit %.0fs" % wall,
               "paths": None, "args": None}
    out["wall_total_s"] = round(time.time() - t0, 2)
    return out


def run_replay(modname, cname, args, tier, seed, no_excl=False):
    cmd = [PY, "-m", "vf.replay", modname, cname, json.dumps(args)]
    if no_excl:
        cmd.append("--no-exclusions")
    try:
        p = subprocess.run(cmd, cwd=VERIF, env=child_env(tier, seed), capture_output=True, text=True, timeout=300)
    except subprocess.TimeoutExpired:
        return True, "replay did not terminate within 300 s (non-termination reproduced)"
    txt = (p.stdout or "").strip().splitlines()
    for line in txt:
        if line.startswith("REPRODUCED: harness-error"):
            return None, line[len("REPRODUCED: "):]
        if line.startswith("REPRODUCED: "):
            return True, line[len("REPRODUCED: "):]
    if p.returncode not in (0, 1):
        return None, "replay crashed: " + (p.stderr or "")[-800:]
    return False, "not reproduced"


def write_replay_script(prop, modname, cname, args, no_excl=False, tier="quick"):
    d = os.path.join(VERIF, "evidence", "replays", prop)
    os.makedirs(d, exist_ok=True)
    safe = "".join(ch if (ch.isalnum() or ch in "[]=,.+-_'") else "_" for ch in cname)      # condition names may contain '/', spaces, quotes
    path = os.path.join(d, safe + ".py")
    with open(path, "w") as f:
        f.write("#!/verif/.venv/bin/python\n"
                "# Replays a counterexample on the real code in /repo/src (no solver involved).\n"
                "import os, sys, json\n"
                "sys.path[:0] = ['/verif', os.path.join(os.environ.get('VERIF_REPO', '/repo'), 'src')]\n"
                + ("os.environ['VERIF_NO_EXCLUSIONS'] = '1'\n" if no_excl else "")
                + "from vf.replay import replay\n"
                "ARGS = json.loads(%r)\n"
                "r = replay(%r, %r, ARGS, %r)\n"
                "print('REPRODUCED: ' + r if r else 'NOT-REPRODUCED')\n"
                "sys.exit(1 if r else 0)\n" % (json.dumps(args), modname, cname, tier))
    return path


def main():
    ensure_env()
    argv = sys.argv[1:]
    prop = argv[0]
    tier = os.environ.get("VERIF_TIER", "quick")
    only = None
    jobs = int(os.environ.get("VERIF_JOBS", "0")) or (os.cpu_count() or 4)
    i = 1
    while i < len(argv):
        if argv[i] in ("quick", "thorough"):
            tier = argv[i]
        elif argv[i] == "--only":
            only = argv[i + 1]
            i += 1
        elif argv[i] == "--jobs":
            jobs = int(argv[i + 1])
            i += 1
        i += 1
    seed = int(os.environ.get("VERIF_SEED", "0") or 0)
    sys.path[:0] = [VERIF, REPO_SRC]
    os.environ["VERIF_TIER"] = tier
    from vf import kf

    modname = "harness." + prop.lower()
    t_start = time.time()
    mod = importlib.import_module(modname)
    conds = mod.conditions(tier)
    names = [c["name"] for c in conds]
    dup = sorted(set(n for n in names if names.count(n) > 1))
    if dup:           # the worker finds a condition by its name: two conditions with one name would be run with the wrong partition
        print("ENGINE-ERROR: duplicate condition names in %s: %r" % (modname, dup), file=sys.stderr)
        sys.exit(2)
    if only:
        conds = [c for c in conds if only in c["name"]]
    elif prop != "SELFTEST" and not getattr(mod, "NO_ENGINE_SELFTEST", False):
        # the engine repairs must hold in this very run before any verdict is believed
        st = importlib.import_module("harness.selftest")
        for c in st.conditions(tier):
            c = dict(c)
            c["module"] = "harness.selftest"
            c["selftest"] = True
            conds.append(c)
    # longest first so that the tail is short
    order = sorted(range(len(conds)), key=lambda k: -conds[k]["timeout"])
    if seed:
        import random
        random.Random(seed).shuffle(order)
        order.sort(key=lambda k: -conds[k]["timeout"])
    results = {}
    with concurrent.futures.ThreadPoolExecutor(max_workers=jobs) as ex:
        futs = {ex.submit(run_worker, modname, conds[k], tier, seed): k for k in order}
        for fut in concurrent.futures.as_completed(futs):
            k = futs[fut]
            results[k] = fut.result()
            if os.environ.get("VERIF_STOP_AT_FIRST") and not STOP["flag"] and results[k].get("verdict") == "refuted" and results[k].get("args") is not None \
                    and conds[k].get("expect", "hold") == "hold" and not conds[k].get("selftest"):
                ok, _ = run_replay(conds[k].get("module", modname), conds[k]["name"], results[k]["args"], tier, seed)
                if ok:
                    STOP["flag"] = True

    violations, engine_errors, lines = [], [], []
    n_conf = n_inc = n_wit = 0
    per_cond = []
    for k, cond in enumerate(conds):
        r = results[k]
        expect = cond.get("expect", "hold")
        v = r.get("verdict")
        status = None
        if v == "error":
            status = "engine-error"
            engine_errors.append("%s: %s" % (cond["name"], r.get("message", "")[:600]))
        elif expect == "refute":
            if v == "refuted":
                status = "reachable (witness found)"
                n_wit += 1
            elif v in ("confirmed", "pre_unsat"):
                status = "VACUOUS"
                engine_errors.append("%s: reachability twin not refuted (%s) - harness is vacuous" % (cond["name"], v))
            else:
                status = "reachability inconclusive"
                n_inc += 1
        else:
            if v == "confirmed":
                status = "holds for all inputs within bounds"
                n_conf += 1
            elif v == "unknown":
                status = "inconclusive (budget exhausted, no counterexample)"
                n_inc += 1
            elif v == "pre_unsat":
                # CrossHair reports this when no explored path got past the preconditions - also when every path ran out of
                # time under load.  It is never counted as held; vacuity of a harness is guarded by its reachability twin.
                status = "inconclusive (no path met the preconditions within the budget)"
                n_inc += 1
            elif v == "refuted":
                args = r.get("args")
                if args is None:
                    status = "counterexample could not be decoded"
                    engine_errors.append("%s: cannot decode counterexample: %s" % (cond["name"], r.get("message", "")[:500]))
                else:
                    cmod = cond.get("module", modname)
                    ok, desc = run_replay(cmod, cond["name"], args, tier, seed)
                    if ok and cond.get("selftest"):
                        status = "ENGINE SELF-TEST FAILED"
                        engine_errors.append("%s: engine repair self-test refuted: %s" % (cond["name"], desc))
                    elif ok:
                        path = write_replay_script(prop, cmod, cond["name"], args, tier=tier)
                        status = "VIOLATION (replayed)"
                        violations.append((cond["name"], args, desc, path))
                    elif ok is None:
                        status = "replay crashed"
                        engine_errors.append("%s: %s" % (cond["name"], desc))
                    else:
                        status = "counterexample does not replay (engine imprecision)"
                        engine_errors.append("%s: solver counterexample %r does not reproduce on the real code: %s"
                                             % (cond["name"], args, r.get("message", "")[:300]))
        per_cond.append({
            "name": cond["name"], "engine": r.get("engine", cond.get("engine", "crosshair")),
            "expect": expect, "verdict": v, "status": status, "paths": r.get("paths"),
            "queries": r.get("queries"), "solver_s": r.get("solver_s"), "wall_s": r.get("wall_total_s"),
            "budget_s": cond["timeout"], "bounds": cond.get("bounds", ""),
            "counterexample": r.get("args"), "note": (r.get("message") or "")[:300],
            "detail": r.get("detail"),
        })

    # known findings: replay each open finding's witness on the real code
    kf_lines = []
    for f in kf.open_for(prop):
        w = f["witness"]
        ok, desc = run_replay(w["module"], w["cond"], w["args"], tier, seed, no_excl=True)
        if ok:
            write_replay_script(prop, w["module"], "known_" + f["id"], w["args"], no_excl=True, tier=tier)
            kf_lines.append("KNOWN-FINDING: property=%s %s [%s] witness=%s" % (prop, f["what"], f["id"], json.dumps(w["args"])))
        else:
            kf_lines.append("NOTE: known finding %s no longer reproduces on this tree (%s)" % (f["id"], desc))

    wall = round(time.time() - t_start, 2)
    n_total = len(conds)
    paths_total = sum((p["paths"] or 0) for p in per_cond)
    queries_total = sum((p["queries"] or 0) for p in per_cond)
    solver_total = round(sum((p["solver_s"] or 0) for p in per_cond), 2)
    samples = []
    for p in per_cond[:40]:
        samples.append({k: p[k] for k in ("name", "engine", "verdict", "status", "paths", "queries", "solver_s", "bounds", "counterexample") if p.get(k) not in (None, "")})
    evidence = {
        "property_id": prop, "tier": tier, "seed": seed, "level": "other",
        "coverage": {
            "explanation": ("Bounded symbolic checking of the real code: each condition is a contract over symbolic inputs "
                            "(CrossHair path-by-path symbolic execution with z3, or an SMT encoding regenerated from /repo's source). "
                            "'confirmed' = every path / the negated obligation closed by the solver within the stated bounds; "
                            "'inconclusive' = budget exhausted without counterexample (not a proof); counterexamples are replayed on the untraced code before being reported. "
                            + getattr(mod, "EXPLANATION", "")),
            "conditions": n_total, "confirmed_within_bounds": n_conf, "inconclusive": n_inc,
            "reachability_witnesses": n_wit, "violations_replayed": len(violations),
            "engine_errors": len(engine_errors),
            "obligations": n_total, "discharged": n_conf + n_wit,
            "paths_explored": paths_total, "smt_queries": queries_total, "solver_cpu_s": solver_total,
            "evaluations": max(1, paths_total + queries_total), "distinct_nontrivial": max(2, paths_total + queries_total),
            "rule": "one evaluation = one symbolic path closed by z3 (E1) or one SMT query (E2); each covers a set of inputs, not a single input",
            "functions_encoded": getattr(mod, "FUNCTIONS", []),
            "bounds": (getattr(mod, "BOUNDS", {}).get(tier, getattr(mod, "BOUNDS", "")) if isinstance(getattr(mod, "BOUNDS", ""), dict) else getattr(mod, "BOUNDS", ""))
                      + ((" " + mod.EXTRA_BOUNDS) if getattr(mod, "EXTRA_BOUNDS", "") else ""),
            "outside_claim": getattr(mod, "OUTSIDE", []),
            "stubs": getattr(mod, "STUBS", []),
            "per_condition": per_cond,
            "samples": samples,
            "known_findings": kf_lines,
            "engine_error_details": engine_errors,
            "exhaustive": False,
        },
        "assumptions": list(getattr(mod, "ASSUMPTIONS", [])) + [
            "crosshair-tool 0.0.110 + z3 faithfully model CPython for the executed subset, with the two runtime repairs in vf/chpatch.py (self-tested by property C-selftest conditions in each run)",
            "a 'confirmed' verdict covers only inputs inside the stated pre: bounds",
        ],
        "wall_s": wall, "violations": len(violations),
    }
    # a run against a scratch worktree (seeded change) must never overwrite the evidence of the real tree
    evdir = os.path.join(VERIF, "evidence", "seedruns") if os.environ.get("VERIF_REPO") else os.path.join(VERIF, "evidence")
    os.makedirs(evdir, exist_ok=True)
    with open(os.path.join(evdir, prop + ".json"), "w") as f:
        json.dump(evidence, f, indent=1, default=repr)

    for p in per_cond:
        print("  [%s] %-38s %-12s %s  paths=%s queries=%s %.1fs  %s" % (
            prop, p["name"], p["verdict"], p["status"], p["paths"], p["queries"], p["wall_s"] or 0,
            ("cex=" + json.dumps(p["counterexample"])) if p["counterexample"] else ""))
    for line in kf_lines:
        print(line)
    print("%s %s: %d conditions, %d confirmed within bounds, %d reachability witnesses, %d inconclusive, %d violations, %d engine errors, %.1fs"
          % (prop, tier, n_total, n_conf, n_wit, n_inc, len(violations), len(engine_errors), wall))
    for name, args, desc, path in violations:
        print("  violation in %s: %s" % (name, desc[:500]))
        print("VIOLATION property=%s replay=%s" % (prop, path))
    for e in engine_errors:
        print("ENGINE-ERROR: " + e, file=sys.stderr)
    if violations:
        sys.exit(1)
    if engine_errors:
        sys.exit(2)
    sys.exit(0)


if __name__ == "__main__":
    main()

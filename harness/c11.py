"""C11 - decoration changes only the look: same text, right codes, none when plain.

E1 (CrossHair).  The formatter (pastel) works with `re`, so messages are composed from symbolic indices
into small piece menus (finite domain, split by the solver, then run on the real code untraced);
indentation amounts are symbolic ints and stay symbolic through Output.write / Indent.
"""
import re

from clikit.api.formatter.style import Style
from clikit.api.formatter.style_set import StyleSet
from clikit.api.io import IO, Input, Output
from clikit.api.io.section_output import SectionOutput
from clikit.formatter import AnsiFormatter, PlainFormatter
from clikit.formatter.default_style_set import DefaultStyleSet
from clikit.io.buffered_io import BufferedIO
from clikit.io.input_stream.string_input_stream import StringInputStream
from clikit.io.output_stream.buffered_output_stream import BufferedOutputStream

from vf.sym import conc_bool, conc_int, conc_str, untraced

PROPERTY = "C11"
FUNCTIONS = ["AnsiFormatter.format/remove_format/add_style", "PlainFormatter.format/remove_format/add_style", "StyleConverter.convert", "Output.write/write_line/write_raw/write_line_raw",
             "IO.write*/error*/indent/increment_indent", "SectionOutput.write", "Indent.__init__/__exit__", "Output.indent/increment_indent"]
PART = {}
EXTRA_BOUNDS = "also: an escaped '<' piece; every message written under indentation 3 on a decorated and a plain output; a style added to one formatter is unknown to fresh formatters; per-call style on a text with plain '<'; styles completed in place after a first use (first use with 0/3 attributes); section_indent: 2 (thorough 3) operations on two prefilled sections with indentation scopes 0/1/4 through the terminal emulator."
BOUNDS = {"quick": "messages = T1 <open i> T2 <open j> T3 </close j> T4 </close i> T5 with text pieces from a 6-piece menu (incl. '<', '>', newline, non-ASCII, 'a<b') and tags from {none, <info>, <b>, <fg=red;options=bold>, <zz> (unknown), <late> (added with add_style)}; "
                   "styles: 11 foreground x {none, red} background x 2^7 attributes through 3 routes; newline law: every reflected line-writing method x texts <= 3 chars over {x,space,e-acute,-}; indentation: 12 nesting shapes of depth <= 3, every amount in [0,4], every exit normal/exceptional",
          "thorough": "11 x 11 backgrounds, 6 choices of the outer text pieces with both tags symbolic, nesting depth 4"}
OUTSIDE = ["messages with unbalanced tags (the statement restricts to balanced ones)", "messages longer than the stated composition", "real tty streams"]
STUBS = []
ASSUMPTIONS = ["SGR codes of a style are compared as a set (the order of codes inside one escape sequence does not change the look)"]

TEXTS = ["", "x", " é", "a<b", "\n", ">", "i " + chr(92) + "< j"]        # the last piece holds an ESCAPED "<" (backslash + "<"): shown as "<"
TAGS = [None, "info", "b", "fg=red;options=bold", "zz", "late"]
SGR = re.compile(r"\x1b\[[0-9;]*m")
TAG = re.compile(r"(?is)<(([a-z][a-z0-9,_=;-]*)|/([a-z][a-z0-9,_=;-]*)?)>")       # what the formatter regards as a tag


def _open(t):
    return "" if t is None else "<%s>" % t


def _close(t, short):
    if t is None:
        return ""
    return "</>" if (short or "=" in t) else "</%s>" % t


def _late_style():
    return Style("late").fg("magenta").underlined()


def _formatters():
    a, p = AnsiFormatter(forced=True), PlainFormatter()
    a.add_style(_late_style())
    p.add_style(_late_style())
    return a, p


def _message_case(pieces, ti, tj, short):
    msg = pieces[0] + _open(ti) + pieces[1] + _open(tj) + pieces[2] + _close(tj, short) + pieces[3] + _close(ti, short) + pieces[4]
    # the pieces may not combine into further tag-like text ("a<b" + ">"): such a message is not the balanced one intended
    intended = [x for x in (_open(ti), _open(tj), _close(tj, short), _close(ti, short)) if x]
    if [m.group(0) for m in TAG.finditer(msg)] != intended:
        return True
    a, p = _formatters()
    decorated = a.format(msg)
    plain = p.format(msg)
    stripped = a.remove_format(msg)
    if SGR.sub("", decorated) != plain or stripped != plain or p.remove_format(msg) != plain:
        return False
    if "\x1b" in plain:
        return False
    # the visible text is the message with its (registered / inline) tags taken out; unknown tags and '<' '>' are text
    expect = pieces[0] + (_open(ti) if ti == "zz" else "") + pieces[1] + (_open(tj) if tj == "zz" else "") + pieces[2] \
        + (_close(tj, short) if tj == "zz" and not short else "") + pieces[3] + (_close(ti, short) if ti == "zz" and not short else "") + pieces[4]
    expect = expect.replace(chr(92) + "<", "<")          # an escaped "<" is the character "<"
    if plain != expect:
        return False
    # an undecorated output (plain stream) writes exactly the plain text, whatever formatter it was given
    for fmt in (_formatters()[1], AnsiFormatter()):
        if isinstance(fmt, AnsiFormatter):
            fmt.add_style(_late_style())
        st = BufferedOutputStream()
        Output(st, fmt).write(msg)
        if st.fetch() != plain:
            return False
    # decorated output: codes only where a style applies; the same formatter keeps no state between balanced messages
    if a.format("x") != "x":
        return False
    # under indentation the decorated and the plain output still show the same text: every non-empty LINE OF TEXT is indented, on both
    want = "".join((("   " + l) if l else l) + "\n" for l in expect.split("\n"))
    shown = []
    for fmt in (a, p):
        st = BufferedOutputStream()
        o = Output(st, fmt)
        with o.indent(3):
            o.write_line(msg)
        shown.append(SGR.sub("", st.fetch()))
        if [l.rstrip(" ") for l in shown[-1].split("\n")] != [l.rstrip(" ") for l in want.split("\n")]:
            return False              # (a line that holds nothing but tags may come out as blanks: invisible)
    if shown[0] != shown[1]:
        return False                  # ... but the decorated and the plain output agree character by character
    # a style added to ONE formatter is unknown to every other formatter: there the tag stays text
    for other in (PlainFormatter(), AnsiFormatter(forced=True)):
        if other.format("<late>q</late>") != "<late>q</late>" or other.remove_format("<late>q</late>") != "<late>q</late>":
            return False
    return True


def message(p0: int, p1: int, p2: int, p3: int, p4: int, ti: int, tj: int, short: bool) -> bool:
    """
    pre: 0 <= p0 < 6 and 0 <= p1 < 6 and 0 <= p2 < 7 and 0 <= p3 < 6 and 0 <= p4 < 6 and 0 <= ti < 6 and 0 <= tj < 6
    pre: PART.get("p0") is None or (p0 == PART["p0"] and p4 == PART["p4"])
    pre: PART.get("ti") is None or ti == PART["ti"]
    pre: PART.get("short") is None or short == PART["short"]
    post: _
    """
    pieces = [TEXTS[conc_int(k, 0, 6)] for k in (p0, p1, p2, p3, p4)]
    ti, tj, short = TAGS[conc_int(ti, 0, 5)], TAGS[conc_int(tj, 0, 5)], conc_bool(short)
    if short and (ti == "zz" or tj == "zz"):
        return True                                   # '</>' after an unknown tag would close something else: not a balanced message
    return untraced(_message_case, pieces, ti, tj, short)


def message_twin(p0: int, p1: int, p2: int, p3: int, p4: int, ti: int, tj: int, short: bool) -> bool:
    """
    pre: p0 == 0 and 0 <= p1 < 6 and p2 == 1 and p3 == 0 and p4 == 0 and 0 <= ti < 6 and 0 <= tj < 6 and not short
    post: _
    """
    pieces = [TEXTS[conc_int(k, 0, 5)] for k in (p0, p1, p2, p3, p4)]
    ti, tj = TAGS[conc_int(ti, 0, 5)], TAGS[conc_int(tj, 0, 5)]
    a, _ = _formatters()
    msg = pieces[0] + _open(ti) + pieces[1] + _open(tj) + pieces[2] + _close(tj, False) + pieces[3] + _close(ti, False) + pieces[4]
    return not (untraced(_message_case, pieces, ti, tj, False) and untraced(a.format, msg).count("\x1b[") >= 4)


# ---------------------------------------------------------------- SGR codes

COLORS = [None, "black", "red", "green", "yellow", "blue", "magenta", "cyan", "white", "default", "light_gray"]
FG = {"black": 30, "red": 31, "green": 32, "yellow": 33, "blue": 34, "magenta": 35, "cyan": 36, "light_gray": 37, "default": 39, "white": 97}
ATTR = [("bold", 1), ("dark", 2), ("italic", 3), ("underlined", 4), ("blinking", 5), ("inverse", 7), ("hidden", 8)]


def _style_case(route, fg, bg, bits, split=0):
    st = Style("t")
    if fg:
        st.fg(fg)
    exp = set()
    if fg:
        exp.add(FG[fg])
    if bg:
        exp.add(FG[bg] + 10)
    f = None
    if route in (4, 5):
        # the style object is used once when only its foreground and its first `split` attributes are set, then refined in place
        # (background, remaining attributes) and used again: the second rendering must show exactly the codes of the style as it is now
        for (name, code), on in list(zip(ATTR, bits))[:split]:
            if on:
                getattr(st, name)()
        f = AnsiFormatter(forced=True)
        if route == 5:
            f.add_style(st)
            f.format("<t>x</t>")
        else:
            f.format("x", st)
        AnsiFormatter(forced=True).format("x", st)          # ... also by an unrelated formatter
    if bg:
        st.bg(bg)
    for k, ((name, code), on) in enumerate(zip(ATTR, bits)):
        if on:
            if not (route in (4, 5) and k < split):
                getattr(st, name)()
            exp.add(code)
    if route == 4:
        out = f.format("x", st)
        if exp and not re.match(r"^\x1b\[[0-9;]+m1 < 2 <3\x1b\[0m$", f.format("1 < 2 <3", st)):
            return False                    # a "<" that is just a character does not switch the style off
    elif route == 5:
        f2 = AnsiFormatter(forced=True)
        f2.add_style(st)
        out = f2.format("<t>x</t>")
    elif route == 0:
        f = AnsiFormatter(StyleSet([st]), forced=True)
        out = f.format("<t>x</t>")
    elif route == 1:
        f = AnsiFormatter(forced=True)
        f.add_style(st)
        out = f.format("<t>x</t>")
    elif route == 2:
        f = AnsiFormatter(forced=True)
        out = f.format("x", st)
        if exp and not re.match(r"^\x1b\[[0-9;]+m1 < 2 <3\x1b\[0m$", f.format("1 < 2 <3", st)):
            return False                    # a "<" that is just a character does not switch the style off
    else:
        # passed for a single call, under a tag that is ALREADY registered with other colours (the passed style wins)
        st._tag = "info"
        f = AnsiFormatter(forced=True)
        out = f.format("x", st)
        if f.format("<info>y</info>") != "\x1b[32my\x1b[0m":
            return False                    # ... and the registered style is untouched by the call
    if not exp:
        return out == "x"
    m = re.match(r"^\x1b\[([0-9;]+)mx\x1b\[0m$", out)
    if not m:
        return False
    codes = [int(c) for c in m.group(1).split(";")]
    return set(codes) == exp and len(codes) == len(exp)


def sgr(fg: int, bg: int, b0: bool, b1: bool, b2: bool, b3: bool, b4: bool, b5: bool, b6: bool) -> bool:
    """
    pre: 0 <= fg < 11 and 0 <= bg < 11
    pre: PART.get("bg") is None or bg == PART["bg"]
    pre: PART.get("bgs") is None or bg in PART["bgs"]
    pre: PART.get("fgs") is None or fg in PART["fgs"]
    post: _
    """
    bits = [conc_bool(b) for b in (b0, b1, b2, b3, b4, b5, b6)]
    return untraced(_style_case, PART["route"], COLORS[conc_int(fg, 0, 10)], COLORS[conc_int(bg, 0, 10)], bits, PART.get("split", 0))


# ---------------------------------------------------------------- exactly one newline

def _line_methods(cls):
    import inspect
    return sorted(n for n, f in inspect.getmembers(cls, inspect.isfunction) if "line" in n and not n.startswith("_") and (n.startswith("write") or n.startswith("error")))


OUT_LINE = _line_methods(Output)
IO_LINE = _line_methods(IO)
LINE_ALPHA = "x é-"


def _newline_case(kind, meth, ansi, msg):
    fmt = (lambda: AnsiFormatter(forced=True)) if ansi else PlainFormatter
    if kind == "output":
        st = BufferedOutputStream()
        getattr(Output(st, fmt()), meth)(msg)
        return st.fetch() == msg + "\n"
    if kind == "section":
        st = BufferedOutputStream()
        s = Output(st, fmt()).section()
        getattr(s, meth)(msg)
        return st.fetch() == msg + "\n"
    so, se = BufferedOutputStream(), BufferedOutputStream()
    if kind == "io":
        io = IO(Input(StringInputStream("")), Output(so, fmt()), Output(se, fmt()))
    elif kind == "buffered":
        io = BufferedIO(formatter=fmt())
        so, se = io.output.stream, io.error_output.stream
    else:
        root = BufferedIO(formatter=fmt())
        so, se = root.output.stream, root.error_output.stream
        io = root.section()
    getattr(io, meth)(msg)
    target, other = (se, so) if meth.startswith("error") else (so, se)
    return target.fetch() == msg + "\n" and other.fetch() == ""


def newline(msg: str, ansi: bool) -> bool:
    """
    pre: len(msg) <= PART["n"]
    pre: all(c in LINE_ALPHA for c in msg)
    post: _
    """
    return untraced(_newline_case, PART["kind"], PART["meth"], conc_bool(ansi), conc_str(msg, LINE_ALPHA))


# ---------------------------------------------------------------- indentation scopes

class Boom(Exception):
    pass


SHAPES = [["io.set"], ["out.set"], ["io.inc"], ["io.set", "io.inc"], ["out.set", "io.inc"], ["err.set", "io.inc"], ["io.set", "out.inc"], ["io.inc", "err.set"],
          ["io.set", "io.inc", "io.inc"], ["out.set", "io.inc", "err.inc"], ["io.inc", "out.set", "io.set"], ["err.set", "out.inc", "io.inc"]]
SHAPES_T = SHAPES + [["io.set", "io.inc", "out.inc", "err.set"], ["out.set", "err.set", "io.inc", "io.inc"], ["io.inc", "io.inc", "io.inc", "io.inc"]]


def _scope(io, kind, amount):
    target, op = kind.split(".")
    obj = {"io": io, "out": io.output, "err": io.error_output}[target]
    return obj.indent(amount) if op == "set" else obj.increment_indent(amount)


def _model(cur, kind, amount):
    target, op = kind.split(".")
    new = dict(cur)
    for k in (("out", "err") if target == "io" else (target,)):
        new[k] = amount if op == "set" else cur[k] + amount
    return new


def _lines_ok(io, cur):
    """Write one non-empty two-line text to each output and check the prefix of every non-empty line."""
    so, se = io.output.stream, io.error_output.stream
    b_out, b_err = so.fetch(), se.fetch()
    io.write_line("ab\n\ncd")
    io.error_line("ef")
    got_out, got_err = so.fetch()[len(b_out):], se.fetch()[len(b_err):]
    return got_out == " " * cur["out"] + "ab\n\n" + " " * cur["out"] + "cd\n" and got_err == " " * cur["err"] + "ef\n"


def _nest(io, shape, amounts, raises, depth, cur):
    """Enter the scopes of `shape` from `depth` on; returns False on a wrong prefix / missing restoration."""
    if depth == len(shape):
        return _lines_ok(io, cur)
    inner = _model(cur, shape[depth], amounts[depth])
    ok = True
    try:
        with _scope(io, shape[depth], amounts[depth]):
            ok = _lines_ok(io, inner) and _nest(io, shape, amounts, raises, depth + 1, inner)
            if ok and raises[depth]:
                raise Boom()
    except Boom:
        pass
    # the indentation that held before the scope holds again after it
    return ok and _lines_ok(io, cur)


def indent(a0: int, a1: int, a2: int, a3: int, r0: bool, r1: bool, r2: bool, r3: bool, ansi: bool) -> bool:
    """
    pre: 0 <= a0 <= 4 and 0 <= a1 <= 4 and 0 <= a2 <= 4 and 0 <= a3 <= 4
    pre: len(PART["shape"]) > 1 or (a1 == 0 and not r1)
    pre: len(PART["shape"]) > 2 or (a2 == 0 and not r2)
    pre: len(PART["shape"]) > 3 or (a3 == 0 and not r3)
    pre: PART.get("ansi") is None or ansi == PART["ansi"]
    post: _
    """
    amounts = [conc_int(a, 0, 4) for a in (a0, a1, a2, a3)]
    raises = [conc_bool(r) for r in (r0, r1, r2, r3)]
    return untraced(_indent_case, PART["shape"], amounts, raises, conc_bool(ansi))


def _indent_case(shape, amounts, raises, ansi):
    io = BufferedIO(formatter=AnsiFormatter(forced=True) if ansi else PlainFormatter())
    return _nest(io, shape, amounts, raises, 0, {"out": 0, "err": 0})


def indent_twin(a0: int, a1: int, a2: int, a3: int, r0: bool, r1: bool, r2: bool, r3: bool, ansi: bool) -> bool:
    """
    pre: 0 <= a0 <= 4 and 0 <= a1 <= 4 and a2 == 0 and a3 == 0 and not r2 and not r3
    post: _
    """
    a0, a1, r0, r1 = conc_int(a0, 0, 4), conc_int(a1, 0, 4), conc_bool(r0), conc_bool(r1)
    ok = untraced(_indent_case, ["out.set", "io.inc"], [a0, a1, 0, 0], [r0, r1, False, False], False)
    return not (ok and a0 == 4 and a1 == 2 and r1)


# ---- indentation on section outputs: a line keeps the indentation that was in force when it was written, also after another section redraws it
def section_indent(s1: int, k1: int, l1: int, i1: int, s2: int, k2: int, l2: int, i2: int, s3: int, k3: int, l3: int, i3: int) -> bool:
    """
    pre: 0 <= s1 < 2 and 0 <= s2 < 2 and 0 <= s3 < 2 and 0 <= k1 < 3 and 0 <= k2 < 3 and 0 <= k3 < 3
    pre: 0 <= l1 < 2 and 0 <= l2 < 2 and 0 <= l3 < 2 and 0 <= i1 < 3 and 0 <= i2 < 3 and 0 <= i3 < 3
    pre: PART["nops"] > 2 or (s3 == 0 and k3 == 0 and l3 == 0 and i3 == 0)
    pre: PART.get("first") is None or (s1 == PART["first"][0] and k1 == PART["first"][1])
    post: _
    """
    from harness import c15
    ops = [(conc_int(s_, 0, 1), c15.KINDS[conc_int(k, 0, 2)], [1, 3][conc_int(l, 0, 1)], [0, 1, 4][conc_int(i, 0, 2)])
           for s_, k, l, i in ((s1, k1, l1, i1), (s2, k2, l2, i2), (s3, k3, l3, i3))][: PART["nops"]]
    return untraced(c15._sequence_case, 12, 2, ops, PART["ansi"], True)


def conditions(tier):
    quick = tier == "quick"
    t = 100 if quick else 1200
    conds = []
    for ansi, first in [(a_, f_) for a_ in (True, False) for f_ in ([None] if quick else [(s_, k_) for s_ in (0, 1) for k_ in (0, 1, 2)])]:
        conds.append({"name": "section_indent[%s%s]" % ("ansi" if ansi else "plain", "" if first is None else ",first=s%d.%d" % first), "fn": section_indent, "timeout": t, "part": {"ansi": ansi, "nops": 2 if quick else 3, "first": first},
                      "bounds": "two prefilled sections of one output (terminal width 12), %d operations from {write_line, write two lines, overwrite} x text length {1, 13} x an indentation scope of 0, 1 or 4 on the section; "
                                "the emitted bytes interpreted by the C15 terminal emulator: every non-empty line shows the indentation in force when it was written" % (2 if quick else 3)})
    if quick:
        for ti in range(6):
            for short in (False, True):
                for edges in (False, True):
                    conds.append({"name": "message[%souter=%s,%s]" % ("edges," if edges else "", TAGS[ti], "short" if short else "long"), "fn": message, "timeout": 2 * t,
                                  "part": {"p0": 3 if edges else 0, "p4": 5 if edges else 0, "ti": ti, "short": short},
                                  "bounds": "T1=%r, T5=%r; T2,T3,T4 from %r; outer tag %s, inner tag any of %r; %s closing tags" % (
                                      TEXTS[3 if edges else 0], TEXTS[5 if edges else 0], TEXTS, TAGS[ti], TAGS, "short '</>'" if short else "named")})
    else:
        for p0, p4 in [(0, 0), (3, 5), (1, 4), (4, 1), (5, 3), (2, 2)]:
            if True:
                for short in (False, True):
                    conds.append({"name": "message[T1=%d,T5=%d,%s]" % (p0, p4, "short" if short else "long"), "fn": message, "timeout": t, "part": {"p0": p0, "p4": p4, "ti": None, "short": short},
                                  "bounds": "T1=%r, T5=%r; inner pieces and both tags symbolic" % (TEXTS[p0], TEXTS[p4])})
    for route, rn in ((4, "format(style=), style refined after a first use"), (5, "add_style, style refined after a first use")):
        for split in ((0, 3) if quick else (0, 2, 5, 7)):
            conds.append({"name": "sgr[%s,first use with %d attributes]" % (rn, split), "fn": sgr, "timeout": t, "part": {"route": route, "split": split, "bgs": [0, 2], "fgs": [0, 2, 9] if quick else None},
                          "bounds": "%s foregrounds x {none, red} backgrounds x 2^7 attribute sets; the Style object is rendered once with its foreground and the first %d attributes, then completed in place and rendered again" % ("3" if quick else "11", split)})
    conds.append({"name": "message_twin", "fn": message_twin, "timeout": t, "expect": "refute", "bounds": "reachability twin"})
    for route in range(4):
        rn = ["style set tag", "add_style", "format(style=)", "format(style=) with a registered tag"][route]
        if quick:
            conds.append({"name": "sgr[%s]" % rn, "fn": sgr, "timeout": t, "part": {"route": route, "bgs": [0, 2]},
                          "bounds": "11 foregrounds x {none, red} backgrounds x 2^7 attribute sets via %s" % rn})
        else:
            for bg in range(11):
                conds.append({"name": "sgr[%s,bg=%s]" % (rn, COLORS[bg]), "fn": sgr, "timeout": t, "part": {"route": route, "bg": bg},
                              "bounds": "11 foregrounds x background %s x 2^7 attribute sets via %s" % (COLORS[bg], rn)})
    for kind, meths in (("output", OUT_LINE), ("section", OUT_LINE), ("io", IO_LINE), ("buffered", IO_LINE), ("iosection", IO_LINE)):
        for meth in meths:
            conds.append({"name": "newline[%s.%s]" % (kind, meth), "fn": newline, "timeout": t, "part": {"kind": kind, "meth": meth, "n": 2 if quick else 3},
                          "bounds": "%s.%s, ANSI and plain, every text of length <= %d over {x,space,e-acute,-}" % (kind, meth, 2 if quick else 3)})
    for shape in (SHAPES if quick else SHAPES_T):
        for ansi in ([None] if len(shape) < 4 else [True, False]):
            conds.append({"name": "indent[%s%s]" % (">".join(shape), "" if ansi is None else ",ansi=%s" % ansi), "fn": indent, "timeout": t, "part": {"shape": shape, "ansi": ansi},
                          "bounds": "nesting %s; every amount in [0,4]; each scope left normally or by an exception; ANSI and plain" % shape})
    conds.append({"name": "indent_twin", "fn": indent_twin, "timeout": t, "expect": "refute", "part": {"shape": ["out.set", "io.inc"]}, "bounds": "reachability twin"})
    return conds

"""Scratch prototype: guarded symbolic evaluation of a Python-AST subset into z3 terms (state merging by ite)."""
import ast, inspect, textwrap, math, z3

F64 = z3.Float64(); RNE = z3.RNE()
class Unsupported(Exception): pass

class Opt:  # optional int: (is_none, val)
    def __init__(self, is_none, val): self.is_none, self.val = is_none, val

class LenStr:  # a string abstracted to its length (a bit-vector or an int)
    def __init__(self, length): self.length = length

def is_sym(v): return isinstance(v, (z3.ExprRef, Opt, LenStr))
def zbool(v):
    if isinstance(v, bool): return z3.BoolVal(v)
    if isinstance(v, z3.BoolRef): return v
    if isinstance(v, z3.BitVecRef): return v != 0
    if isinstance(v, z3.FPRef): return z3.Not(z3.fpIsZero(v))
    if isinstance(v, LenStr): return zbool(v.length != 0) if is_sym(v.length) else z3.BoolVal(v.length != 0)
    if isinstance(v, (str, float)): return z3.BoolVal(bool(v))
    if isinstance(v, int): return z3.BoolVal(v != 0)
    if v is None: return z3.BoolVal(False)
    if isinstance(v, list): return z3.BoolVal(len(v) > 0)
    raise Unsupported(f"truth of {v!r}")

class Ctx:
    def __init__(self, bv=16):
        self.bv = bv
        self.exc = z3.BoolVal(False)      # an exception has been raised
        self.exc_kind = {}                # class name -> Bool
        self.unwind_fail = z3.BoolVal(False)
        self.side = []                    # side obligations [(name, Bool violated)]
    def lift(self, v):
        if isinstance(v, bool): return z3.BoolVal(v)
        if isinstance(v, int): return z3.BitVecVal(v, self.bv)
        if isinstance(v, float): return z3.FPVal(v, F64)
        return v
    def tofp(self, v):
        if isinstance(v, z3.FPRef): return v
        if isinstance(v, float): return z3.FPVal(v, F64)
        if isinstance(v, int): return z3.FPVal(float(v), F64)
        if isinstance(v, z3.BitVecRef): return z3.fpSignedToFP(RNE, v, F64)
        raise Unsupported(f"tofp {v!r}")
    def ite(self, c, a, b):
        if a is b: return a
        if isinstance(c, bool): return a if c else b
        c = z3.simplify(c)
        if z3.is_true(c): return a
        if z3.is_false(c): return b
        if isinstance(a, list) and isinstance(b, list) and len(a) == len(b):
            return [self.ite(c, x, y) for x, y in zip(a, b)]
        if isinstance(a, LenStr) or isinstance(b, LenStr):
            la = a.length if isinstance(a, LenStr) else len(a)
            lb = b.length if isinstance(b, LenStr) else len(b)
            return LenStr(self.ite(c, la, lb))
        if isinstance(a, Opt) or isinstance(b, Opt) or a is None or b is None:
            a, b = self.toopt(a), self.toopt(b)
            return Opt(z3.If(c, a.is_none, b.is_none), z3.If(c, a.val, b.val))
        if not is_sym(a) and not is_sym(b) and a == b and type(a) == type(b): return a
        a, b = self.lift(a), self.lift(b)
        if isinstance(a, z3.FPRef) or isinstance(b, z3.FPRef): a, b = self.tofp(a), self.tofp(b)
        return z3.If(c, a, b)
    def toopt(self, v):
        if isinstance(v, Opt): return v
        if v is None: return Opt(z3.BoolVal(True), z3.BitVecVal(0, self.bv))
        return Opt(z3.BoolVal(False), self.lift(v))

class Frame:
    def __init__(self, ctx, env, fn_globals, self_obj_cls=None, dyn_cls=None):
        self.ctx, self.env, self.g, self.cls = ctx, env, fn_globals, self_obj_cls
        self.dyn_cls = dyn_cls or self_obj_cls        # class of the object `self` (dynamic dispatch)
        self.ret = None; self.returned = z3.BoolVal(False); self.cont = z3.BoolVal(False)

class Interp:
    def __init__(self, ctx, stubs=None): self.ctx = ctx; self.stubs = stubs or {}
    # ---------- statements
    def live(self, fr, guard): return z3.simplify(z3.And(guard, z3.Not(self.ctx.exc), z3.Not(fr.returned), z3.Not(fr.cont)))
    def block(self, fr, stmts, guard):
        for s in stmts: self.stmt(fr, s, self.live(fr, guard))
    def assign(self, fr, target, val, guard):
        c = self.ctx
        if isinstance(target, ast.Name):
            old = fr.env.get(target.id, val); fr.env[target.id] = c.ite(guard, val, old)
        elif isinstance(target, ast.Attribute) and isinstance(target.value, ast.Name) and target.value.id == "self":
            k = "self." + target.attr; old = fr.env.get(k, val); fr.env[k] = c.ite(guard, val, old)
        elif isinstance(target, ast.Subscript):
            lst = self.expr(fr, target.value, guard); idx = self.expr(fr, target.slice, guard)
            if not isinstance(idx, int): raise Unsupported("symbolic index store")
            lst[idx] = c.ite(guard, val, lst[idx])      # in-place: lists are per-state objects (copied on merge)
        else: raise Unsupported(ast.dump(target))
    def stmt(self, fr, s, guard):
        c = self.ctx
        if z3.is_false(guard): return
        if isinstance(s, ast.Expr):
            if isinstance(s.value, ast.Constant): return
            self.expr(fr, s.value, guard); return
        if isinstance(s, ast.Assign):
            v = self.expr(fr, s.value, guard)
            if isinstance(v, list): v = list(v)
            for t in s.targets: self.assign(fr, t, v, guard)
            return
        if isinstance(s, ast.AugAssign):
            cur = self.expr(fr, s.target, guard); v = self.binop(type(s.op), cur, self.expr(fr, s.value, guard), guard)
            self.assign(fr, s.target, v, guard); return
        if isinstance(s, ast.If):
            t = zbool(self.expr(fr, s.test, guard))
            self.block(fr, s.body, z3.And(guard, t)); self.block(fr, s.orelse, z3.And(guard, z3.Not(t))); return
        if isinstance(s, ast.For):
            it = self.expr(fr, s.iter, guard)
            if not isinstance(it, list): raise Unsupported("for over non-concrete-length iterable")
            for item in it:
                fr.cont = z3.BoolVal(False)
                g = self.live(fr, guard)
                if isinstance(s.target, ast.Tuple):
                    for t, v in zip(s.target.elts, item): self.assign(fr, t, v, True)
                else: self.assign(fr, s.target, item, True)
                self.block(fr, s.body, g)
            fr.cont = z3.BoolVal(False)
            return
        if isinstance(s, ast.While):
            bound = self.stubs.get("while_bound", 8)
            for _ in range(bound):
                g = self.live(fr, guard); t = zbool(self.expr(fr, s.test, g))
                self.block(fr, s.body, z3.And(g, t))
            g = self.live(fr, guard); t = zbool(self.expr(fr, s.test, g))
            c.unwind_fail = z3.Or(c.unwind_fail, z3.And(g, t)); return
        if isinstance(s, ast.Return):
            v = self.expr(fr, s.value, guard) if s.value else None
            fr.ret = v if fr.ret is None and z3.is_false(z3.simplify(fr.returned)) else c.ite(guard, v, fr.ret)
            fr.returned = z3.Or(fr.returned, guard); return
        if isinstance(s, ast.Raise):
            name = s.exc.func.id if isinstance(s.exc, ast.Call) and isinstance(s.exc.func, ast.Name) else "Exception"
            c.exc_kind[name] = z3.Or(c.exc_kind.get(name, z3.BoolVal(False)), guard); c.exc = z3.Or(c.exc, guard); return
        if isinstance(s, ast.Delete):
            # `del lst[a:b]` with concrete bounds on a concrete-length list, only where the program point is reached unconditionally
            # (a deletion under a symbolic guard would give the list a symbolic length)
            if not z3.is_true(z3.simplify(guard)): raise Unsupported("del under a symbolic guard")
            for t in s.targets:
                if not (isinstance(t, ast.Subscript) and isinstance(t.slice, ast.Slice)): raise Unsupported("del of a non-slice")
                lst = self.expr(fr, t.value, guard)
                lo = self.expr(fr, t.slice.lower, guard) if t.slice.lower is not None else None
                hi = self.expr(fr, t.slice.upper, guard) if t.slice.upper is not None else None
                if not isinstance(lst, list) or any(x is not None and not isinstance(x, int) for x in (lo, hi)): raise Unsupported("del with symbolic bounds")
                new = list(lst); del new[lo:hi]
                self.assign(fr, t.value, new, guard)
            return
        if isinstance(s, ast.Continue): fr.cont = z3.Or(fr.cont, guard); return
        if isinstance(s, ast.Pass): return
        raise Unsupported(type(s).__name__)
    # ---------- expressions
    def binop(self, op, a, b, guard):
        c = self.ctx
        if isinstance(a, Opt): a = a.val
        if isinstance(b, Opt): b = b.val
        if isinstance(a, (LenStr, str)) or isinstance(b, (LenStr, str)):
            if isinstance(a, str) and isinstance(b, str) and op is ast.Add: return a + b
            if isinstance(a, str) and isinstance(b, int) and op is ast.Mult: return a * b
            if op is ast.Add:
                la = a.length if isinstance(a, LenStr) else len(a)
                lb = b.length if isinstance(b, LenStr) else len(b)
                return LenStr(self.binop(ast.Add, la, lb, guard))
            if op is ast.Mult:
                st, n = (a, b) if isinstance(a, (LenStr, str)) else (b, a)
                ln = st.length if isinstance(st, LenStr) else len(st)
                prod = self.binop(ast.Mult, ln, n, guard)
                neg = self.compare(ast.Lt(), n, 0)
                return LenStr(c.ite(zbool(neg) if is_sym(neg) else neg, 0, prod))      # "x" * -3 == ""
            raise Unsupported("string operator " + op.__name__)
        if not is_sym(a) and not is_sym(b):
            import operator as o
            return {ast.Add:o.add, ast.Sub:o.sub, ast.Mult:o.mul, ast.Div:o.truediv, ast.FloorDiv:o.floordiv, ast.Mod:o.mod, ast.BitAnd:o.and_, ast.BitOr:o.or_}[op](a, b)
        if op is ast.Div:
            fa, fb = c.tofp(a), c.tofp(b)
            c.side.append(("division by zero", z3.And(guard, z3.fpIsZero(fb))))
            return z3.fpDiv(RNE, fa, fb)
        if isinstance(a, (z3.FPRef, float)) or isinstance(b, (z3.FPRef, float)):
            fa, fb = c.tofp(a), c.tofp(b)
            return {ast.Add: lambda: z3.fpAdd(RNE, fa, fb), ast.Sub: lambda: z3.fpSub(RNE, fa, fb), ast.Mult: lambda: z3.fpMul(RNE, fa, fb)}[op]()
        a, b = c.lift(a), c.lift(b)
        if op is ast.Add: return a + b
        if op is ast.Sub: return a - b
        if op is ast.Mult: return a * b
        if op is ast.BitAnd: return a & b
        if op is ast.BitOr: return a | b
        if op in (ast.FloorDiv, ast.Mod):
            c.side.append(("integer division by zero", z3.And(guard, b == 0)))
            q, r = a / b, z3.SRem(a, b)                      # truncating signed division / remainder
            adjust = z3.And(r != 0, (r < 0) != (b < 0))      # Python floors
            return z3.If(adjust, q - 1, q) if op is ast.FloorDiv else z3.If(adjust, r + b, r)
        raise Unsupported(op.__name__)
    def compare(self, op, a, b):
        c = self.ctx
        if isinstance(op, (ast.Is, ast.IsNot)):
            if b is None:
                r = a.is_none if isinstance(a, Opt) else z3.BoolVal(a is None)
                return r if isinstance(op, ast.Is) else z3.Not(r)
            raise Unsupported("is")
        if not is_sym(a) and not is_sym(b):
            import operator as o
            return {ast.Lt:o.lt, ast.LtE:o.le, ast.Gt:o.gt, ast.GtE:o.ge, ast.Eq:o.eq, ast.NotEq:o.ne}[type(op)](a, b)
        if isinstance(a, Opt): a = a.val    # caller guarded by "is not None"
        if isinstance(b, Opt): b = b.val
        if isinstance(a, (z3.FPRef, float)) or isinstance(b, (z3.FPRef, float)):
            fa, fb = c.tofp(a), c.tofp(b)
            return {ast.Lt: z3.fpLT, ast.LtE: z3.fpLEQ, ast.Gt: z3.fpGT, ast.GtE: z3.fpGEQ, ast.Eq: z3.fpEQ, ast.NotEq: lambda x, y: z3.Not(z3.fpEQ(x, y))}[type(op)](fa, fb)
        a, b = c.lift(a), c.lift(b)
        return {ast.Lt: lambda x,y: x < y, ast.LtE: lambda x,y: x <= y, ast.Gt: lambda x,y: x > y, ast.GtE: lambda x,y: x >= y, ast.Eq: lambda x,y: x == y, ast.NotEq: lambda x,y: x != y}[type(op)](a, b)
    def expr(self, fr, e, guard):
        c = self.ctx
        if isinstance(e, ast.Constant): return e.value
        if isinstance(e, ast.Name):
            if e.id in fr.env: return fr.env[e.id]
            if e.id in fr.g: return fr.g[e.id]
            if e.id in ("True", "False", "None"): return eval(e.id)
            raise Unsupported("name " + e.id)
        if isinstance(e, ast.Attribute):
            if isinstance(e.value, ast.Name) and e.value.id == "self":
                k = "self." + e.attr
                if k in fr.env: return fr.env[k]
                if fr.dyn_cls is not None and hasattr(fr.dyn_cls, e.attr):
                    attr = None
                    for k in fr.dyn_cls.__mro__:
                        if e.attr in k.__dict__:
                            attr = (k, k.__dict__[e.attr]); break
                    if attr and isinstance(attr[1], property):                 # property: inline its getter
                        return self.inline(attr[0], e.attr, [], fr, guard, fn=attr[1].fget)
                    return getattr(fr.dyn_cls, e.attr)   # class constants
            base = self.expr(fr, e.value, guard)
            if not is_sym(base) and not isinstance(base, (list, Opt)) and base is not None:
                return getattr(base, e.attr)
            raise Unsupported("attribute " + ast.dump(e))
        if isinstance(e, ast.BinOp): return self.binop(type(e.op), self.expr(fr, e.left, guard), self.expr(fr, e.right, guard), guard)
        if isinstance(e, ast.UnaryOp):
            v = self.expr(fr, e.operand, guard)
            if isinstance(e.op, ast.Not): return (not v) if not is_sym(v) else z3.Not(zbool(v))
            if isinstance(e.op, ast.USub): return -v
            raise Unsupported("unary")
        if isinstance(e, ast.BoolOp):
            vals = [self.expr(fr, v, guard) for v in e.values]
            if all(not is_sym(v) for v in vals):
                r = vals[0]
                for v in vals[1:]: r = (r and v) if isinstance(e.op, ast.And) else (r or v)
                return r
            if any(isinstance(v, (z3.BoolRef, bool)) for v in vals):     # boolean context
                bs = [zbool(v) for v in vals]
                return z3.And(*bs) if isinstance(e.op, ast.And) else z3.Or(*bs)
            r = vals[-1]                                                  # value context: `a or 10`
            for v in reversed(vals[:-1]):
                t = zbool(v) if is_sym(v) else z3.BoolVal(bool(v))
                r = c.ite(t, v, r) if isinstance(e.op, ast.Or) else c.ite(t, r, v)
            return r
        if isinstance(e, ast.Compare):
            left = self.expr(fr, e.left, guard); res = []
            for op, right in zip(e.ops, e.comparators):
                r = self.expr(fr, right, guard); res.append(self.compare(op, left, r)); left = r
            if all(isinstance(r, bool) for r in res): return all(res)
            return z3.And(*[zbool(r) for r in res])
        if isinstance(e, ast.Subscript):
            lst = self.expr(fr, e.value, guard)
            if isinstance(e.slice, ast.Slice):
                if e.slice.lower is None and e.slice.upper is None: return list(lst)
                raise Unsupported("slice")
            idx = self.expr(fr, e.slice, guard)
            if isinstance(idx, int): return lst[idx]
            raise Unsupported("symbolic index")
        if isinstance(e, ast.IfExp):
            t = self.expr(fr, e.test, guard)
            if not is_sym(t): return self.expr(fr, e.body if t else e.orelse, guard)
            return c.ite(zbool(t), self.expr(fr, e.body, guard), self.expr(fr, e.orelse, guard))
        if isinstance(e, ast.List): return [self.expr(fr, x, guard) for x in e.elts]
        if isinstance(e, ast.Call): return self.call(fr, e, guard)
        raise Unsupported(type(e).__name__)
    def call(self, fr, e, guard):
        c = self.ctx
        f = e.func
        args = [self.expr(fr, a, guard) for a in e.args]
        if isinstance(f, ast.Name):
            n = f.id
            if n == "len": return args[0].length if isinstance(args[0], LenStr) else len(args[0])
            if n == "str" and is_sym(args[0]): raise Unsupported("str() of a symbolic value")
            if n == "enumerate": return [(i, v) for i, v in enumerate(args[0])]
            if n == "range": return list(range(*args))
            if n == "sum":
                t = 0
                for v in args[0]: t = self.binop(ast.Add, t, v, guard)
                return t
            if n == "round":
                v = args[0]
                if not is_sym(v): return round(v)
                return z3.fpRoundToIntegral(RNE, c.tofp(v))
            if n == "int":
                v = args[0]
                if not is_sym(v): return int(v)
                if isinstance(v, z3.FPRef): return z3.fpToSBV(z3.RTZ(), v, z3.BitVecSort(c.bv))
                return v
            if n == "bool": return zbool(args[0]) if is_sym(args[0]) else bool(args[0])
            if n == "max" or n == "min":
                a, b = args
                cond = self.compare(ast.GtE() if n == "max" else ast.LtE(), a, b)
                return c.ite(zbool(cond) if is_sym(cond) else cond, a, b)
            if n == "super": return ("super",)
        if isinstance(f, ast.Attribute):
            dotted = ast.unparse(f)
            if dotted in self.stubs: return self.stubs[dotted](self, fr, args, guard)
            if f.attr in self.stubs and not (isinstance(f.value, ast.Name) and f.value.id == "self"):
                try: fr.last_recv = self.expr(fr, f.value, guard)       # the receiver, for stubs that need it (x.replace(...))
                except (Unsupported, KeyError, AttributeError): fr.last_recv = None
                return self.stubs[f.attr](self, fr, args, guard)
            if dotted in ("math.floor", "math.ceil") and is_sym(args[0]):
                v = args[0]
                if isinstance(v, z3.BitVecRef): return v
                rm = z3.RTN() if dotted == "math.floor" else z3.RTP()
                return z3.fpToSBV(z3.RTZ(), z3.fpRoundToIntegral(rm, c.tofp(v)), z3.BitVecSort(c.bv))
            # self.method(...) / super(...).method(...): inline from source or stub
            recv = f.value
            is_self = isinstance(recv, ast.Name) and recv.id == "self"
            is_super = isinstance(recv, ast.Call) and isinstance(recv.func, ast.Name) and recv.func.id == "super"
            if is_self or is_super:
                key = f.attr
                if key in self.stubs: return self.stubs[key](self, fr, args, guard)
                cls = fr.cls
                if is_super: cls = [k for k in fr.cls.__mro__[1:] if f.attr in k.__dict__][0]
                else: cls = [k for k in fr.dyn_cls.__mro__ if f.attr in k.__dict__][0]
                return self.inline(cls, f.attr, args, fr, guard)
        # pure call with concrete arguments only (isinstance, re.match, str methods ...): evaluate it
        if all(not is_sym(a) and not isinstance(a, list) for a in args) and not e.keywords:
            try:
                target = self.expr(fr, f, guard) if not isinstance(f, ast.Name) else (fr.env.get(f.id) or fr.g.get(f.id) or getattr(__import__("builtins"), f.id))
                return target(*args)
            except Unsupported:
                pass
            except Exception:
                # a concrete call that fails is fine when this program point is unreachable (guard unsatisfiable)
                sv = z3.Solver(); sv.set("timeout", 5000); sv.add(guard)
                if str(sv.check()) == "unsat":
                    return None
                raise
        raise Unsupported("call " + ast.dump(f))
    def inline(self, cls, name, args, caller, guard, fn=None):
        fn = fn or cls.__dict__[name]
        tree = ast.parse(textwrap.dedent(inspect.getsource(fn))).body[0]
        params = [a.arg for a in tree.args.args][1:]
        env = {k: v for k, v in caller.env.items() if k.startswith("self.")}
        env.update(dict(zip(params, args)))
        fr = Frame(self.ctx, env, fn.__globals__, cls, caller.dyn_cls)
        self.block(fr, tree.body, guard)
        for k, v in fr.env.items():
            if k.startswith("self."): caller.env[k] = v
        return fr.ret
def run_method(cls, name, env, args, ctx, stubs=None, start_cls=None):
    it = Interp(ctx, stubs)
    caller = Frame(ctx, dict(env), {}, start_cls or cls)
    owner = [k for k in cls.__mro__ if name in k.__dict__][0]
    ret = it.inline(owner, name, args, caller, z3.BoolVal(True))
    return ret, caller.env

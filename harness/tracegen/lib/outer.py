# generated source used by harness/c20.py (a frame under a path that can be ignored)
from harness.tracegen import inner
def call(name, *args):
    return getattr(inner, name)(*args)

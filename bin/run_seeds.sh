#!/bin/bash
# usage: run_seeds.sh [tier] [id ...]   - runs every seeded change (or the given ones) against its property's check in a SCRATCH
# worktree of /repo (so /repo itself stays untouched), records the outcome in /verif/seeded/detection.json, removes the worktree.
TIER=${1:-quick}; shift
ROOT=$(dirname "$(dirname "$(readlink -f "$0")")")        # the /verif this script belongs to (a vp-run snapshot uses its own harness files)
W=/tmp/seedrun.$$
git -C /repo worktree add -q --detach $W HEAD || exit 3
trap 'git -C /repo worktree remove --force $W' EXIT
IDS="$@"; [ -z "$IDS" ] && IDS=$(ls $ROOT/seeded | grep -E '^C[0-9]+_[a-z]$')
for s in $IDS; do
  prop=${s%_*}
  git -C $W checkout -q -- . 
  if ! git -C $W apply $ROOT/seeded/$s/patch.diff 2>/dev/null; then echo "$s PATCH-DOES-NOT-APPLY"; continue; fi
  t0=$(date +%s)
  (cd $ROOT && VERIF_STOP_AT_FIRST=${VERIF_STOP_AT_FIRST-1} VERIF_REPO=$W timeout 1500 ./check $prop $TIER) > /tmp/seedrun.$$.log 2>&1; rc=$?
  t1=$(date +%s)
  viol=$(grep -c '^VIOLATION' /tmp/seedrun.$$.log)
  first=$(grep -m1 'violation in' /tmp/seedrun.$$.log | cut -c1-300)
  echo "$s rc=$rc violations=$viol secs=$((t1-t0)) :: $first"
  DET_DEFAULT=$ROOT/seeded/detection.json /verif/.venv/bin/python - "$s" "$rc" "$viol" "$((t1-t0))" "$TIER" "$first" <<'PY'
import json, sys, os
p=os.environ.get('DETECTION') or os.environ['DET_DEFAULT']
d=json.load(open(p)) if os.path.exists(p) else {}
s, rc, viol, secs, tier, first = sys.argv[1:7]
d[s]={"tier": tier, "exit_code": int(rc), "violation_lines": int(viol), "seconds": int(secs), "detected": int(rc)==1 and int(viol)>0, "first_violation": first.strip()}
json.dump(d, open(p,'w'), indent=1, sort_keys=True)
PY
done
rm -f /tmp/seedrun.$$.log

"""C05 - parsing is a pure function of the command line, the format and the mode.

E1 (CrossHair).  History form: one DefaultArgsParser instance parses line A (may fail) with format FA,
then line B with format FB; the outcome of B must equal a fresh parser's.  Lines are 2 tokens each,
chosen by symbolic indices from a small menu of state-relevant tokens; leniency of each parse is
symbolic.  The carried state of a parser is exactly what a previous parse leaves behind, so every
state injected here is reachable by construction (no unreachable pre-states).
Non-mutation: argv list, RawArgs tokens and format listings compared before/after with symbolic tokens.
"""
from clikit.api.args.exceptions import CannotParseArgsException, NoSuchOptionException
from clikit.args.argv_args import ArgvArgs
from clikit.args.default_args_parser import DefaultArgsParser
from clikit.args.string_args import StringArgs

from harness import pfmt
from harness.pfmt import Arg, Opt, Skel

PROPERTY = "C05"
FUNCTIONS = ["DefaultArgsParser.__init__/parse (+ everything it calls)", "ArgvArgs.__init__/tokens", "StringArgs.tokens", "ArgsFormat listings"]
PART = {}
EXTRA_BOUNDS = 'also: the same RawArgs/ArgsFormat objects parsed twice in any two modes (second also with the mode left out); empty command line after any two-token line; 4 formats built on the fly and dropped on one long-lived parser; ArgvArgs() on sys.argv; declared-elements oracle for the format and its base chain.'
BOUNDS = {"quick": "histories of 2 parses (2 tokens from a 5-literal menu, then 2 tokens from a 4-literal menu observed in strict mode) over 5 format pairs incl. same-names/different-flags; 3-parse histories (1+1+2 tokens) over 2 pairs; non-mutation with 2 symbolic tokens <= 2 chars",
          "thorough": "same shapes over a 7-literal menu for every token (observed parse strict, first parse either leniency), 8 format pairs, 3-parse histories over 4 pairs"}
OUTSIDE = ["histories of 4-6 parses (property says 6): a parser's only carried state is what the last parses left in _arguments/_options (and any cache a change might add), which 2-3 parses already exercise",
           "tokens outside the menu", "custom ArgsParser implementations set through Config.set_args_parser (only DefaultArgsParser is encoded)"]
STUBS = []
ASSUMPTIONS = []

# S1 variant with the same element names but different flags (an option that takes a value became a flag and vice versa)
S1B = Skel("S1B", [Opt("flag", "f", "req"), Opt("opt", "o", "flag")], [Arg("a", "opt"), Arg("b", "multi")])
SK = dict(pfmt.SKELS)
SK["S1B"] = S1B
MENU = ["x", "y", "-f", "--opt=x", "-o", "--zz", "", "--"]      # thorough
MENU_A = ["x", "-f", "--opt=x", "-o", "--zz", "--"]         # quick: tokens of the first line (leave state behind / fail / end the options)
MENU_B = ["x", "-f", "", "--opt=x"]                         # quick: tokens of the observed line
PAIRS = [("S1", "S1"), ("S2", "S2"), ("S1", "S1B"), ("S1B", "S1"), ("S1", "S6"), ("S4", "S4"), ("S5", "S1")]
PAIRS_T = [("S1", "S1"), ("S1", "S1B"), ("S1B", "S1"), ("S2", "S2"), ("S4", "S4"), ("S5", "S1"), ("S3", "S3"), ("S2", "S6")]
ALLOWED = (CannotParseArgsException, NoSuchOptionException, ValueError)


def _pick(k, menu=None):
    menu = menu or MENU
    for i in range(len(menu)):
        if k == i:
            return menu[i]
    return ""


def _menus():
    return (MENU, MENU) if PART.get("full") else (MENU_A, MENU_B)


def _outcome(parser, skel, tokens, lenient):
    try:
        a = parser.parse(ArgvArgs(["prog"] + tokens), skel.fmt, lenient)
    except ALLOWED as e:
        return ("exc", type(e).__name__, str(e))
    return ("ok", a.arguments(False), a.options(False), a.arguments(True), a.options(True))


def two_parses(a2: int, b1: int, b2: int, la: bool, lb: bool) -> bool:
    """
    pre: 0 <= a2 < len(_menus()[0]) and 0 <= b1 < len(_menus()[1]) and 0 <= b2 < len(_menus()[1])
    pre: PART.get("lb") is None or lb == PART["lb"]
    post: _
    """
    fa, fb = SK[PART["fa"]], SK[PART["fb"]]
    ma, mb = _menus()
    A = [ma[PART["a1"]], _pick(a2, ma)]
    B = [_pick(b1, mb), _pick(b2, mb)]
    shared = DefaultArgsParser()
    _outcome(shared, fa, A, la)
    return _outcome(shared, fb, B, lb) == _outcome(DefaultArgsParser(), fb, B, lb)


def same_objects(b1: int, b2: int, la: bool, lb: bool, fresh_parser: bool, omit: bool) -> bool:
    """
    pre: 0 <= b1 < len(MENU) and 0 <= b2 < len(MENU)
    post: _
    """
    # the SAME raw-args object and the SAME format object are parsed twice (any two leniency modes), on one parser or on two:
    # the second result depends on its own mode only
    from vf.sym import conc_bool, untraced
    return untraced(_same_objects_case, SK[PART["fb"]], _pick(b1), _pick(b2), conc_bool(la), conc_bool(lb), conc_bool(fresh_parser), conc_bool(omit))


def _same_objects_case(fb, t1, t2, la, lb, fresh_parser, omit=False):
    if omit:
        lb = False          # the second parse does not name its mode: the documented default is strict
    raw = ArgvArgs(["prog", t1, t2])
    shared = DefaultArgsParser()

    def run(parser, lenient, omitted=False):
        try:
            a = parser.parse(raw, fb.fmt) if omitted else parser.parse(raw, fb.fmt, lenient)
        except ALLOWED as e:
            return ("exc", type(e).__name__, str(e))
        return ("ok", a.arguments(False), a.options(False), a.arguments(True), a.options(True))

    run(shared, la)
    second = run(DefaultArgsParser() if fresh_parser else shared, lb, omit)
    ref_raw = ArgvArgs(["prog", t1, t2])
    try:
        a = DefaultArgsParser().parse(ref_raw, fb.fmt, lb)
        ref = ("ok", a.arguments(False), a.options(False), a.arguments(True), a.options(True))
    except ALLOWED as e:
        ref = ("exc", type(e).__name__, str(e))
    return second == ref


def after_parse_empty(a1: int, a2: int, la: bool, lb: bool, string_form: bool) -> bool:
    """
    pre: 0 <= a1 < len(MENU) and 0 <= a2 < len(MENU)
    post: _
    """
    # a parser that has parsed any two-token line is then given the EMPTY command line (argv with the script name only / an empty string)
    from vf.sym import conc_bool, untraced
    return untraced(_after_parse_empty_case, SK[PART["fa"]], SK[PART["fb"]], _pick(a1), _pick(a2), conc_bool(la), conc_bool(lb), conc_bool(string_form))


def _after_parse_empty_case(fa, fb, t1, t2, la, lb, string_form):
    def outcome(parser, raw, fmt, lenient):
        try:
            a = parser.parse(raw, fmt, lenient)
        except ALLOWED as e:
            return ("exc", type(e).__name__, str(e))
        return ("ok", a.arguments(False), a.options(False), a.arguments(True), a.options(True))

    empty = (lambda: StringArgs("")) if string_form else (lambda: ArgvArgs(["prog"]))
    shared = DefaultArgsParser()
    outcome(shared, ArgvArgs(["prog", t1, t2]), fa.fmt, la)
    return outcome(shared, empty(), fb.fmt, lb) == outcome(DefaultArgsParser(), empty(), fb.fmt, lb)


def _fresh_formats_case(order, lenient):
    """One long-lived parser; every request brings a format that is built on the fly from long-lived elements and is dropped as soon as the
    request is answered (so the next format may well live at the address of the previous one)."""
    from clikit.api.args.format.args_format import ArgsFormat
    from clikit.api.args.format.argument import Argument
    from clikit.api.args.format.option import Option
    kinds = [[Argument("a", Argument.REQUIRED), Option("flag", "f")],
             [Option("opt", "o", Option.REQUIRED_VALUE)],
             [Argument("x", Argument.OPTIONAL), Argument("y", Argument.OPTIONAL), Option("zz", "z")],
             []]
    lines = [["v", "-f"], ["-o", "w"], ["p", "q", "--zz"], ["extra"]]

    def outcome(parser, line, fmt):
        try:
            a = parser.parse(ArgvArgs(["prog"] + line), fmt, lenient)
            return ("ok", a.arguments(False), a.options(False))          # plain values only: nothing keeps the format alive
        except ALLOWED as e:
            return ("exc", type(e).__name__, str(e))

    shared = DefaultArgsParser()
    requests = [(k, line) for rep in range(3) for k in order for line in lines]
    got = [outcome(shared, line, ArgsFormat(kinds[k])) for k, line in requests]
    want = [outcome(DefaultArgsParser(), line, ArgsFormat(kinds[k])) for k, line in requests]
    return got == want


def fresh_formats(k1: int, k2: int, k3: int, k4: int, lenient: bool) -> bool:
    """
    pre: 0 <= k1 <= 3 and 0 <= k2 <= 3 and 0 <= k3 <= 3 and 0 <= k4 <= 3
    post: _
    """
    from vf.sym import conc_bool, conc_int, untraced
    return untraced(_fresh_formats_case, [conc_int(k, 0, 3) for k in (k1, k2, k3, k4)], conc_bool(lenient))


def three_parses(a: int, b: int, c1: int, c2: int, lenient: bool) -> bool:
    """
    pre: 0 <= b < len(_menus()[0]) and 0 <= c1 < len(_menus()[1]) and 0 <= c2 < len(_menus()[1])
    pre: a == PART["a1"]
    post: _
    """
    fa, fb = SK[PART["fa"]], SK[PART["fb"]]
    ma, mb = _menus()
    shared = DefaultArgsParser()
    _outcome(shared, fa, [ma[PART["a1"]]], False)
    _outcome(shared, fb, [_pick(b, ma)], lenient)
    C = [_pick(c1, mb), _pick(c2, mb)]
    return _outcome(shared, fa, C, lenient) == _outcome(DefaultArgsParser(), fa, C, lenient)


def two_parses_twin(a2: int, b1: int, b2: int, la: bool, lb: bool) -> bool:
    """
    pre: 0 <= a2 < len(MENU) and 0 <= b1 < len(MENU) and 0 <= b2 < len(MENU)
    post: _
    """
    # reachability twin: the first parse really leaves something behind (and may fail), the second succeeds
    shared = DefaultArgsParser()
    r1 = _outcome(shared, pfmt.S1, ["-f", _pick(a2)], la)
    r2 = _outcome(shared, pfmt.S1, [_pick(b1), _pick(b2)], lb)
    return not (r1[0] == "exc" and len(shared._options) == 0 and r2[0] == "ok" and r2[2] == {})


def _listing(fmt):
    return ([c.string for c in fmt.get_command_names()], list(fmt.get_arguments()), list(fmt.get_options()),
            list(fmt.get_options(False)), list(fmt.get_arguments(False)), [c.string for c in fmt.get_command_names(False)],
            [fmt.has_option(o.long_name, False) for o in fmt.get_options().values()],
            [(o.long_name, o.short_name, o.flags, o.default) for o in fmt.get_options().values()],
            [(a.name, a.flags, a.default) for a in fmt.get_arguments().values()])


def _declared_ok(skel):
    """The format and every format of its base chain list exactly the elements they were declared with (own-only and merged views)."""
    while skel is not None:
        f = skel.fmt
        if list(f.get_arguments(False)) != [a.name for a in skel.args] or list(f.get_arguments()) != [a.name for a in skel.all_args]:
            return False
        if list(f.get_options(False)) != [o.long for o in skel.opts] or sorted(f.get_options()) != sorted(o.long for o in skel.all_opts):
            return False
        if [c.string for c in f.get_command_names(False)] != [c[0] for c in skel.cmds] or [c.string for c in f.get_command_names()] != [c[0] for c in skel.all_cmds]:
            return False
        if f.has_required_argument() != any(a.kind in ("req", "multireq") for a in skel.all_args) or f.has_multi_valued_argument() != any(a.kind.startswith("multi") for a in skel.all_args):
            return False
        skel = skel.base
    return True


ALPHA = "-fox="


def no_mutation(t1: str, t2: str, lenient: bool) -> bool:
    """
    pre: len(t1) == PART["l1"] and len(t2) == PART["l2"]
    pre: all(c in ALPHA for c in t1) and all(c in ALPHA for c in t2)
    post: _
    """
    skel = SK[PART["skel"]]
    argv = ["prog", t1, t2]
    snapshot = list(argv)
    raw = ArgvArgs(argv)
    if argv != snapshot or raw.tokens is argv:
        return False
    argv.append("later")                 # the caller's list and the raw args are independent
    if raw.tokens != snapshot[1:]:
        return False
    tokens_before = list(raw.tokens)
    opt_before = list(raw.option_tokens)
    listing = _listing(skel.fmt)
    try:
        DefaultArgsParser().parse(raw, skel.fmt, lenient)
    except ALLOWED:
        pass
    return raw.tokens == tokens_before and raw.option_tokens == opt_before and _listing(skel.fmt) == listing and argv == snapshot + ["later"] and _declared_ok(skel)


def default_ctor(t1: str, t2: str) -> bool:
    """
    pre: len(t1) <= 2 and len(t2) <= 2
    pre: all(c in ALPHA for c in t1) and all(c in ALPHA for c in t2)
    post: _
    """
    # ArgvArgs() without an argument wraps sys.argv: the interpreter's own list stays as it is, however often it is wrapped
    import sys
    saved = sys.argv
    mine = ["prog", t1, t2]
    sys.argv = mine
    try:
        a = ArgvArgs()
        b = ArgvArgs()
        ok = sys.argv is mine and mine == ["prog", t1, t2] and a.tokens == [t1, t2] and b.tokens == [t1, t2] and a.tokens is not mine and a.script_name == "prog"
        a.tokens.append("zz")
        return ok and mine == ["prog", t1, t2] and b.tokens == [t1, t2]
    finally:
        sys.argv = saved


def no_mutation_menu(k1: int, k2: int, lenient: bool) -> bool:
    """
    pre: 0 <= k1 < PART["n"] and 0 <= k2 < PART["n"]
    post: _
    """
    # the same, with both tokens drawn from the format's own menu of option spellings (own AND inherited options, command names)
    from harness.c02 import menu_for
    skel = SK[PART["skel"]]
    menu = menu_for(skel, False)
    raw = ArgvArgs(["prog", _pick(k1, menu), _pick(k2, menu)])
    tokens_before = list(raw.tokens)
    listing = _listing(skel.fmt)
    base_listing = _listing(skel.fmt.base_format) if skel.fmt.base_format else None
    try:
        DefaultArgsParser().parse(raw, skel.fmt, lenient)
    except ALLOWED:
        pass
    return raw.tokens == tokens_before and _listing(skel.fmt) == listing and (base_listing is None or _listing(skel.fmt.base_format) == base_listing) and _declared_ok(skel)


def no_mutation_string(t1: str, t2: str, lenient: bool) -> bool:
    """
    pre: len(t1) == PART["l1"] and len(t2) == PART["l2"]
    pre: all(c in "fox-" for c in t1) and all(c in "fox-" for c in t2)
    post: _
    """
    skel = SK[PART["skel"]]
    raw = StringArgs(t1 + " " + t2)
    tokens_before = list(raw.tokens)
    listing = _listing(skel.fmt)
    try:
        DefaultArgsParser().parse(raw, skel.fmt, lenient)
    except ALLOWED:
        pass
    return raw.tokens == tokens_before and _listing(skel.fmt) == listing


def conditions(tier):
    quick = tier == "quick"
    t = 90 if quick else 600
    conds = []
    full = not quick
    ma = MENU if full else MENU_A
    for fa, fb in ([("S1", "S1"), ("S1", "S1B"), ("S1B", "S1"), ("S2", "S2"), ("S4", "S4")] if quick else PAIRS_T):
        for a1 in range(len(ma)):
            conds.append({"name": "two_parses[%s>%s,%r]" % (fa, fb, ma[a1]), "fn": two_parses, "timeout": t,
                          "part": {"fa": fa, "fb": fb, "a1": a1, "full": full, "lb": False},
                          "bounds": "parse [%r, m] with %s (either leniency) then [m', m'] with %s (%s) on one parser; m in %r, m' in %r" % (
                              ma[a1], fa, fb, "strict", ma, MENU if full else MENU_B)})
    for fa, fb in ([("S1", "S1"), ("S1", "S1B")] if quick else [("S1", "S1"), ("S1", "S1B"), ("S2", "S2"), ("S4", "S4")]):
        for a1 in range(len(ma)):
            conds.append({"name": "three_parses[%s,%s,%r]" % (fa, fb, ma[a1]), "fn": three_parses, "timeout": t, "part": {"fa": fa, "fb": fb, "a1": a1, "full": full},
                          "bounds": "[%r] with %s strict, [m] with %s, then [m', m'] with %s on one parser" % (ma[a1], fa, fb, fa)})
    for fb in (("S1", "S2", "S6") if quick else ("S1", "S2", "S3", "S4", "S5", "S6", "S8")):
        conds.append({"name": "same_objects[%s]" % fb, "fn": same_objects, "timeout": t, "part": {"fb": fb},
                      "bounds": "one RawArgs object ([m, m'] from %r) and the format object %s parsed twice, each parse strict or lenient (the second also with the mode left out = strict), on one parser or two" % (MENU, fb)})
    for fa, fb in [("S1", "S1"), ("S1", "S6"), ("S2", "S1"), ("S4", "S4")]:
        conds.append({"name": "after_parse_empty[%s>%s]" % (fa, fb), "fn": after_parse_empty, "timeout": t, "part": {"fa": fa, "fb": fb},
                      "bounds": "parse [m, m'] (m, m' in %r) with %s, then the EMPTY command line (argv or string form) with %s on the same parser, every pair of modes" % (MENU, fa, fb)})
    conds.append({"name": "fresh_formats", "fn": fresh_formats, "timeout": t,
                  "bounds": "one parser, 4 formats from a menu of 4 built on the fly, used for 4 lines each and dropped (garbage-collected) before the next is built; strict and lenient"})
    conds.append({"name": "default_ctor", "fn": default_ctor, "timeout": t, "bounds": "ArgvArgs() on sys.argv = ['prog', t1, t2], tokens of <= 2 chars over {-,f,o,x,=}: sys.argv untouched, wrappers independent"})
    conds.append({"name": "two_parses_twin", "fn": two_parses_twin, "timeout": t, "expect": "refute", "part": {"fa": "S1", "fb": "S1", "a1": 2}, "bounds": "reachability twin"})
    for sk in (("S1", "S4", "S5") if quick else ("S1", "S2", "S3", "S4", "S5", "S8")):
        for l1, l2 in ([(1, 2), (2, 2)] if quick else [(a, b) for a in range(0, 3) for b in range(0, 4)]):
            conds.append({"name": "no_mutation[%s,%d,%d]" % (sk, l1, l2), "fn": no_mutation, "timeout": t, "part": {"skel": sk, "l1": l1, "l2": l2},
                          "bounds": "argv list / ArgvArgs tokens / format listings unchanged, tokens of lengths %d,%d over {-,f,o,x,=}" % (l1, l2)})
        from harness.c02 import menu_for
        conds.append({"name": "no_mutation_menu[%s]" % sk, "fn": no_mutation_menu, "timeout": t, "part": {"skel": sk, "n": len(menu_for(SK[sk], False))},
                      "bounds": "format listings (merged and own-only, of the format and of its base) unchanged by parsing any 2 tokens of the format's literal menu"})
        conds.append({"name": "no_mutation_string[%s]" % sk, "fn": no_mutation_string, "timeout": t, "part": {"skel": sk, "l1": 2, "l2": 2},
                      "bounds": "StringArgs tokens / format listings unchanged, 2 tokens of 2 chars"})
    return conds

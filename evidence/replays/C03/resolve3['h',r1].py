#!/verif/.venv/bin/python
# Replays a counterexample on the real code in /repo/src (no solver involved).
import os, sys, json
sys.path[:0] = ['/verif', '/repo/src']
from vf.replay import replay
ARGS = json.loads('{"k2": 13, "k3": 7, "l_default": false, "x_default": false, "a_disabled": false, "m_default": false}')
r = replay('harness.c03', "resolve3['h',r1]", ARGS, 'quick')
print('REPRODUCED: ' + r if r else 'NOT-REPRODUCED')
sys.exit(1 if r else 0)

# generated source used by harness/c20.py and harness/c04.py - line positions matter, do not reformat
def ml_inner(msg):
    doc = """first line of a string </error>
an inner line with </comment> and <fg=orange>text and </info> in it
    another inner line <b>
last line </b> of it </info>""" + "tail </info>" + str(1)  # code after the closing quotes </question>
    if doc:
        raise ValueError(msg)
    return doc

#!/usr/bin/env python3
"""Regenerates /verif/MANIFEST.json from the table below (kept valid against /root/.vp/MANIFEST.schema.json)."""
import json, os, subprocess

CHECKS = {}   # property id -> dict(text, note, technique, design_ref)
NOT_APPLICABLE = {}

def load():
    import importlib.util
    spec = importlib.util.spec_from_file_location("manifest_table", os.path.join(os.path.dirname(__file__), "manifest_table.py"))
    m = importlib.util.module_from_spec(spec); spec.loader.exec_module(m)
    return m

def main():
    t = load()
    try:
        commits = subprocess.run(["git", "-C", "/repo", "log", "--format=%h %s", "41c2242..HEAD"], capture_output=True, text=True).stdout.strip().splitlines()
    except Exception:
        commits = []
    checks = []
    for pid in sorted(t.CHECKS):
        c = t.CHECKS[pid]
        checks.append({
            "property_id": pid,
            "quick_cmd": "./check %s quick" % pid,
            "thorough_cmd": "./check %s thorough" % pid,
            "evidence_file": "/verif/evidence/%s.json" % pid,
            "replay_cmd_template": "/verif/.venv/bin/python {path}",
            "engine": c.get("engine", "E1 crosshair+z3"),
            "level_claimed": {"category": "other", "text": c["text"], "design_ref": c.get("design_ref", "DESIGN.md section 3, " + pid)},
            "level_note": c["note"],
            "technique": c["technique"],
        })
    man = {
        "version": 1,
        "setup_cmd": "/verif/bin/ensure_env.sh",
        "hooks": {
            "guard": "CLIKIT_VERIF",
            "enable": "no source hooks exist: every stub (clock, threading, stty, terminal width, streams) is applied from the harness; the guard name is reserved and unused",
            "baseline_off_cmd": "/verif/bin/baseline.sh",
            "source_commits": [],
            "add_only": True,
        },
        "engines": [
            {"name": "E1", "path": "/verif/vf/worker.py", "serves_properties": sorted(p for p in t.CHECKS if "E1" in t.CHECKS[p].get("engine", "E1")),
             "kind_free_text": "CrossHair 0.0.110 (symbolic execution of the real Python functions, z3 per path) driven through its API, one OS process per condition under a hard wall clock; runtime repairs in vf/chpatch.py"},
            {"name": "E2", "path": "/verif/vf/py2smt.py", "serves_properties": sorted(p for p in t.CHECKS if "E2" in t.CHECKS[p].get("engine", "")),
             "kind_free_text": "own Python-AST -> SMT translator (guarded execution, ite merging) over the function source read from /repo at run time; z3 5.1 (QF_BV/LIA) and cvc5 1.4 (QF_BVFP)"},
        ],
        "checks": checks,
        "not_applicable": [{"property_id": k, "reason": v} for k, v in sorted(t.NOT_APPLICABLE.items())],
        "notes": t.NOTES + " fix: commits in /repo: " + "; ".join(commits),
    }
    with open("/verif/MANIFEST.json", "w") as f:
        json.dump(man, f, indent=1)
    try:
        import jsonschema
        jsonschema.validate(man, json.load(open("/root/.vp/MANIFEST.schema.json")))
        print("MANIFEST.json valid:", len(checks), "checks,", len(man["not_applicable"]), "not applicable")
    except ImportError:
        print("written (jsonschema not available to validate)")

if __name__ == "__main__":
    main()

# Tiny module on purpose: the trace renderer tokenises the whole source file of the failing frame.
from clikit.api.exceptions import CliKitException
class CodedError(Exception):
    code = 7
class StrCodedError(Exception):
    code = "invalid"
class MyCliError(CliKitException):
    pass
class Weird(Exception):
    def __init__(self, msg):
        Exception.__init__(self, msg)
        self.code = None
def chained(msg):
    try:
        raise KeyError("inner")
    except KeyError as e:
        raise RuntimeError(msg) from e
def do_raise(kind, msg, ns):
    if kind == 0:
        raise ValueError(msg)
    if kind == 1:
        raise CliKitException(msg)
    if kind == 2:
        raise MyCliError(msg)
    if kind == 3:
        raise CodedError(msg)
    if kind == 4:
        raise StrCodedError(msg)
    if kind == 5:
        raise KeyboardInterrupt()
    if kind == 6:
        chained(msg)
    if kind == 7:
        ns["boom"](msg)
    if kind == 9:
        from harness.tracegen import mlstring
        mlstring.ml_inner(msg)
    raise Weird(msg)
def listener_fail():
    raise RuntimeError("listener failed")

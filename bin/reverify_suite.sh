#!/bin/bash
# usage: reverify_suite.sh <seed dir name> [kind]   - runs the repository's suite ON THE PATCHED CODE (PYTHONPATH = worktree/src; /venv has an editable install of
# /repo, so without it the suite would silently test the unpatched tree) and prints one line
s=$1; KIND=${2:-seeded}
W=/tmp/reverify.$$.$s
git -C /repo worktree add -q --detach $W HEAD || exit 3
git -C $W apply /verif/$KIND/$s/patch.diff 2>/dev/null || { echo "$s PATCH-DOES-NOT-APPLY"; git -C /repo worktree remove --force $W; exit 0; }
cd $W
WHERE=$(PYTHONPATH=$W/src /venv/bin/python -c "import clikit; print(clikit.__file__)")
T=$(PYTHONPATH=$W/src /venv/bin/python -m pytest -q -p no:cacheprovider 2>&1 | tail -3 | tr '\n' ' ')
case "$T" in *"1 failed, 396 passed, 3 skipped, 1 error"*) R=SAME;; *) R=DIFFERENT;; esac
case "$WHERE" in $W/*) ;; *) R="NOT-THE-PATCHED-CODE";; esac
echo "$s $R :: $T" | cut -c1-300
cd /; git -C /repo worktree remove --force $W

"""C12 - listeners run by priority then registration order until propagation stops.

E1 (CrossHair).  Concrete: the operation skeleton (which step registers on which event, where the
dispatch rounds are).  Symbolic: every priority (finite domain {-1,0,1}: priorities are dict keys
in EventDispatcher and therefore realised by the engine - the bound is real) and every "stops
propagation" bit.  A dispatch round dispatches all three event names and runs all queries.
Oracle: stable sort by (-priority, registration index), cut after the first stopper.
"""
from clikit.api.event.event import Event
from clikit.api.event.event_dispatcher import EventDispatcher

PROPERTY = "C12"
FUNCTIONS = ["EventDispatcher.add_listener/dispatch/_do_dispatch/_sort_listeners/get_listeners/has_listeners/get_listener_priority",
             "Event.stop_propagation/is_propagation_stopped"]
PART = {}
EXTRA_BOUNDS = 'also: skeleton steps S (the first callable registered once more) and N (a listener that registers a further listener while it is being called); seqsym: EVERY sequence of 3 (thorough 4) operations from {register e1, register e2, dispatch round} followed by two rounds.'
EVENTS = ["e1", "e2", "e3"]
BOUNDS = {"quick": "skeletons of <= 4 registrations and <= 2 dispatch rounds (each round = dispatch e1,e2,e3 + all queries), priorities in {-1,0,1}, stops in {F,T}, events e1/e2 for registration",
          "thorough": "skeletons of <= 5 registrations and <= 3 dispatch rounds (sequence length up to 8 operations)"}
OUTSIDE = ["priorities outside {-1,0,1} (only the relative order matters; three values realise every order type of <= 3 listeners, not of 4-5)",
           "random sequences up to length 40", "removing listeners (the API has no removal)"]
STUBS = []
ASSUMPTIONS = ["listeners are distinct callables"]

# skeleton: string over R1 R2 (register on e1 / e2) and D (dispatch round)
QUICK = ["R1 S1 D", "R1 S2 D", "R1 R1 S1 D D", "R1 R2 S2 S1 D", "N1 D D", "R1 N1 D D", "N1 R1 D R1 D D", "R1 D", "D R1 D", "R1 D D", "R1 R1 D D R1 D", "R1 D R1 R1 D", "R2 D R2 R1 D", "R1 R1 D", "R1 R2 D", "R1 D R1 D", "R1 R1 R1 D", "R1 R2 R1 D", "R1 R1 D R1 D", "R2 R1 D R2 D", "R1 D R1 D R1 D",
         "R1 R1 R1 R1 D", "R1 R2 D R2 R1 D", "R1 R1 D R1 R1 D"]
THOROUGH = QUICK + ["R1 R2 D R2 R1 R2 D", "R1 R2 R1 R2 D", "R1 R1 R1 D R1 D", "R1 D R1 D R1 R1 D",
                    "R1 R1 R1 R1 R1 D", "R1 R1 R2 D R1 R1 D D", "R1 R1 D R1 D R1 R1 D"]


def _conc_p(p):
    # the dispatcher uses priorities as dict keys (realised by the engine anyway): split the finite domain up front
    return -1 if p == -1 else (0 if p == 0 else 1)


def _run(skel, prios, stops):
    prios = [_conc_p(p) for p in prios]
    stops = [True if s else False for s in stops]
    d = EventDispatcher()
    log = []
    regs = []          # (event, priority, stops, listener) in registration order

    def make(i, stop):
        def listener(event, event_name, dispatcher):
            log.append((i, event_name))
            if stop:
                event.stop_propagation()
        return listener

    pending = []           # listeners registered from inside a listener during the dispatch that is running: they take part from the NEXT dispatch on

    def make_nesting(i, ev, prio):
        done = []

        def listener(event, event_name, dispatcher):
            log.append((i, event_name))
            if not done:
                done.append(1)
                child = make(100 + i, False)
                dispatcher.add_listener(ev, child, prio)
                pending.append((ev, prio, False, child, 100 + i))
        return listener

    k = 0
    for step in skel.split():
        if step[0] == "R":
            ev = EVENTS[int(step[1]) - 1]
            fn = make(k, stops[k])
            d.add_listener(ev, fn, prios[k])
            regs.append((ev, prios[k], stops[k], fn, k, len(regs)))
            k += 1
        elif step[0] == "S":                 # the FIRST callable is registered once more (on this step's event, with this step's priority): it is then called once per registration
            ev = EVENTS[int(step[1]) - 1]
            if not regs:
                return True
            fn = regs[0][3]
            d.add_listener(ev, fn, prios[k])
            regs.append((ev, prios[k], regs[0][2], fn, regs[0][4], len(regs)))
            k += 1
        elif step[0] == "N":                 # a listener that, the first time it is called, registers a further listener for the same event (priority of this step)
            ev = EVENTS[int(step[1]) - 1]
            fn = make_nesting(k, ev, prios[k])
            d.add_listener(ev, fn, 0)
            regs.append((ev, 0, False, fn, k, len(regs)))
            k += 1
        else:
            for ev in EVENTS:
                mine = [r for r in regs if r[0] == ev]
                order = sorted(mine, key=lambda r: (-r[1], r[5]))
                expected = []
                for r in order:
                    expected.append((r[4], ev))
                    if r[2]:
                        break
                del log[:]
                e = d.dispatch(ev)
                if log != expected:
                    return False
                if pending:
                    for pr in pending:
                        regs.append(pr + (len(regs),))
                    del pending[:]
                    mine = [r for r in regs if r[0] == ev]
                    order = sorted(mine, key=lambda r: (-r[1], r[5]))
                if e.is_propagation_stopped() != any(r[2] for r in order):
                    return False
                if d.has_listeners(ev) != bool(mine):
                    return False
                got = d.get_listeners(ev)
                if len(got) != len(order) or any(g is not r[3] for g, r in zip(got, order)):
                    return False
                for r in mine:
                    if sum(1 for q in mine if q[3] is r[3]) == 1 and d.get_listener_priority(ev, r[3]) != r[1]:
                        return False            # (the priority of a callable registered twice on one event is not a single number)
            if d.has_listeners() != bool(regs):
                return False
            allmap = d.get_listeners()
            for ev in EVENTS:
                order = sorted([r for r in regs if r[0] == ev], key=lambda r: (-r[1], r[5]))
                got = allmap.get(ev, [])
                if len(got) != len(order) or any(g is not r[3] for g, r in zip(got, order)):
                    return False
    return True


def seq(p0: int, p1: int, p2: int, p3: int, p4: int, s0: bool, s1: bool, s2: bool, s3: bool, s4: bool) -> bool:
    """
    pre: -1 <= p0 <= 1 and -1 <= p1 <= 1 and -1 <= p2 <= 1 and -1 <= p3 <= 1 and -1 <= p4 <= 1
    pre: PART["nreg"] > 1 or (p1 == 0 and not s1)
    pre: PART["nreg"] > 2 or (p2 == 0 and not s2)
    pre: PART["nreg"] > 3 or (p3 == 0 and not s3)
    pre: PART["nreg"] > 4 or (p4 == 0 and not s4)
    post: _
    """
    from vf.sym import untraced
    return untraced(_run, PART["skel"], [_conc_p(p) for p in (p0, p1, p2, p3, p4)], [True if s_ else False for s_ in (s0, s1, s2, s3, s4)])


def seq3(p0: int, p1: int, p2: int, s0: bool, s1: bool, s2: bool) -> bool:
    """
    pre: -1 <= p0 <= 1 and -1 <= p1 <= 1 and -1 <= p2 <= 1
    pre: PART["nreg"] > 1 or (p1 == 0 and not s1)
    pre: PART["nreg"] > 2 or (p2 == 0 and not s2)
    post: _
    """
    from vf.sym import untraced
    return untraced(_run, PART["skel"], [_conc_p(p) for p in (p0, p1, p2)], [True if s_ else False for s_ in (s0, s1, s2)])


def seqsym(k0: int, k1: int, k2: int, k3: int, p0: int, p1: int, p2: int, p3: int, s0: bool, s1: bool, s2: bool, s3: bool) -> bool:
    """
    pre: 0 <= k0 <= 2 and 0 <= k1 <= 2 and 0 <= k2 <= 2 and 0 <= k3 <= 2
    pre: -1 <= p0 <= 1 and -1 <= p1 <= 1 and -1 <= p2 <= 1 and -1 <= p3 <= 1
    pre: k0 == PART["k0"] and (PART["n"] > 3 or (k3 == 2 and p3 == 0 and not s3))
    pre: (k0 != 2 or (p0 == 0 and not s0)) and (k1 != 2 or (p1 == 0 and not s1)) and (k2 != 2 or (p2 == 0 and not s2)) and (k3 != 2 or (p3 == 0 and not s3))
    post: _
    """
    # the skeleton itself is symbolic: every sequence of n operations from {register on e1, register on e2, dispatch round}, then two dispatch rounds
    from vf.sym import conc_int, untraced
    kinds = [conc_int(k, 0, 2) for k in (k0, k1, k2, k3)][: PART["n"]]
    prios, stops, skel = [], [], []
    for k, p, st in zip(kinds, (p0, p1, p2, p3), (s0, s1, s2, s3)):
        if k == 2:
            skel.append("D")
        else:
            skel.append("R%d" % (k + 1))
            prios.append(_conc_p(p))
            stops.append(True if st else False)
    skel += ["D", "D"]
    return untraced(_run, " ".join(skel), prios + [0], stops + [False])


def seq_twin(p0: int, p1: int, p2: int, p3: int, p4: int, s0: bool, s1: bool, s2: bool, s3: bool, s4: bool) -> bool:
    """
    pre: -1 <= p0 <= 1 and -1 <= p1 <= 1 and -1 <= p2 <= 1 and p3 == 0 and p4 == 0
    pre: not s3 and not s4
    post: _
    """
    # reachability twin: a lower-priority later listener is really cut off by an earlier stopper
    return not (_run("R1 R1 R1 D", [p0, p1, p2, 0, 0], [s0, s1, s2, False, False]) and s0 and p1 < p0 and p2 > p0)


def conditions(tier):
    t = 90 if tier == "quick" else 900
    conds = []
    for skel in (QUICK if tier == "quick" else THOROUGH):
        nreg = sum(1 for s in skel.split() if s[0] in "RSN")
        conds.append({"name": "seq[%s]" % skel.replace(" ", ""), "fn": seq3 if nreg <= 3 else seq, "timeout": t, "part": {"skel": skel, "nreg": nreg},
                      "bounds": "skeleton %s: %d priorities in {-1,0,1} and %d stop bits symbolic" % (skel, nreg, nreg)})
    n = 3 if tier == "quick" else 4
    for k0 in range(3):
        conds.append({"name": "seqsym[%d ops,first=%s]" % (n, ["R1", "R2", "D"][k0]), "fn": seqsym, "timeout": t, "part": {"k0": k0, "n": n},
                      "bounds": "EVERY sequence of %d operations from {register on e1, register on e2 (priority in {-1,0,1}, stops or not), dispatch round}, first = %s, followed by two dispatch rounds" % (n, ["R1", "R2", "D"][k0])})
    conds.append({"name": "seq_twin", "fn": seq_twin, "timeout": t, "expect": "refute", "part": {"skel": "R1 R1 R1 D", "nreg": 3}, "bounds": "reachability twin"})
    return conds

#!/verif/.venv/bin/python
# Replays a counterexample on the real code in /repo/src (no solver involved).
import os, sys, json
sys.path[:0] = ['/verif', '/repo/src']
from vf.replay import replay
ARGS = json.loads('{"q": true, "ansi": 0, "n": true, "hv": 0, "short": true, "pos": 2, "raises": true, "rotate": false}')
r = replay('harness.c09', 'switches[greet,-v]', ARGS, 'quick')
print('REPRODUCED: ' + r if r else 'NOT-REPRODUCED')
sys.exit(1 if r else 0)

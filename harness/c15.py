"""C15 - section outputs keep the screen equal to the stacked section contents.

E2 (AST -> SMT, QF_BVFP, cvc5): SectionOutput.add_content is translated from the current source (strings
abstracted to their lengths): the number of rows it books for a line of visible length L on a terminal of
width W equals the rows a W-column terminal really uses, for all 0 <= L <= 4096, 1 <= W <= 512.
E1 (CrossHair; finite domains split by the solver): operation sequences over 2-3 sections of one ANSI output;
the emitted bytes are interpreted by a terminal emulator (LF, CR, cursor up, erase to end of screen, auto-wrap at
W with pending-wrap) and the final screen must equal the stacked current contents of all sections in creation order.
"""
import re
import time as _time

import z3

import clikit.utils.terminal as termmod
from clikit.api.io.output import Output
from clikit.api.io.section_output import SectionOutput
from clikit.formatter import AnsiFormatter, PlainFormatter
from clikit.io.output_stream.buffered_output_stream import BufferedOutputStream

from vf import kf
from vf.sym import conc_int, untraced

PROPERTY = "C15"
FUNCTIONS = ["SectionOutput.add_content/write/clear/overwrite/_pop_stream_content_until_current_section", "Output.section/write", "Terminal.width (stubbed)"]
PART = {}
EXTRA_BOUNDS = 'also: smt_clear_step (E2): K <= 3 (thorough 5) content lines of lengths 0..2048, width 1..512, clear() and clear(n) for every n <= K from any state satisfying lines == sum(rows); sequence_indent: operations additionally from {text ending in a line break, overwrite with the text shown, clear(0), tagged line (registered + late style), suppressed write} under an indentation scope 0/2; afterwards the youngest section is switched to a plain formatter.'
BOUNDS = {"quick": "E2: all 0 <= L <= 4096, 1 <= W <= 512; E1: 3 operations after creating 2-3 sections, each op = (section, kind in {write_line, write 2 lines, overwrite, clear(), clear(1), clear(2)}, text of length in {0, 1, W, W+1, 2W+1}); width 3 with 2 sections (3 ops), width 5 with 3 sections (2 ops), plain output (2 ops)",
          "thorough": "3 operations on 2 sections (widths 2, 5) and on 3 prefilled sections (widths 3, 8), plain output with 3 operations"}
OUTSIDE = ["indentation scopes opened on the parent output while sections exist (only scopes on the section itself)", "clear(n) with n larger than the number of lines the section holds (skipped)", "tabs (the code counts a tab as 8 columns; the emulator has no tab stops)", "more than 3 sections, sequences longer than stated", "random length-40 sequences", "style tags inside section lines"]
STUBS = ["Terminal.width -> the chosen width W (class-level property patched from the harness)", "E2: strings abstracted to their length; self.remove_format(x) -> x; no tabs"]
ASSUMPTIONS = ["terminal model: a line of exactly W characters followed by LF uses one row (pending-wrap), as xterm-like terminals do"]


class TtyBuffer(BufferedOutputStream):
    def supports_ansi(self):
        return True


class Screen:
    def __init__(self, w):
        self.w, self.rows, self.r, self.c = w, [""], 0, 0

    def put(self, ch):
        if self.c >= self.w:
            self.nl()
        row = self.rows[self.r]
        self.rows[self.r] = row[: self.c].ljust(self.c) + ch + row[self.c + 1:]
        self.c += 1

    def nl(self):
        self.r += 1
        self.c = 0
        while self.r >= len(self.rows):
            self.rows.append("")

    def feed(self, s):
        i = 0
        while i < len(s):
            ch = s[i]
            if ch == "\n":
                self.nl()
                i += 1
            elif ch == "\r":
                self.c = 0
                i += 1
            elif ch == "\x1b":
                m = re.match(r"\x1b\[([\d;]*)([AJm])", s[i:])
                if not m:
                    return False
                if m.group(2) == "m":                      # colours and attributes do not move the cursor
                    i += len(m.group(0))
                    continue
                n = int(m.group(1) or 0)
                if m.group(2) == "A":
                    self.r = max(0, self.r - n)
                else:
                    self.rows[self.r] = self.rows[self.r][: self.c]
                    del self.rows[self.r + 1:]
                i += len(m.group(0))
            else:
                self.put(ch)
                i += 1
        return True

    def text(self):
        return "\n".join(r.rstrip() for r in self.rows).rstrip("\n")


def wrapped(lines, w):
    out = []
    for l in lines:
        if l == "":
            out.append("")
        while l:
            out.append(l[:w])
            l = l[w:]
    return "\n".join(out).rstrip("\n")


KINDS = ["write_line", "write_two", "overwrite", "clear", "clear1", "clear2"]
NLEN = 5
LETTERS = "abcdefghij"


def _text(w, li, tag):
    n = [0, 1, w, w + 1, 2 * w + 1][li]
    return (tag * n)[:n]


def _sequence_case(w, nsec, ops, ansi, prefill=False):
    saved = termmod.Terminal.width
    termmod.Terminal.width = property(lambda self: w)
    try:
        st = TtyBuffer() if ansi == "tty-plain" else BufferedOutputStream()
        # "tty-plain": a stream that supports ANSI with a formatter that disables it (what --no-ansi installs): still an output without ANSI support
        out = Output(st, AnsiFormatter(forced=True) if ansi is True else PlainFormatter())
        from clikit.api.formatter.style import Style
        out.formatter.add_style(Style("late").fg("cyan"))          # a style added after construction
        ansi = ansi is True
        secs = [out.section() for _ in range(nsec)]
        model = [[] for _ in range(nsec)]          # current content lines per section, creation order
        appended = []                              # what a plain output must contain
        if prefill:                                # every section starts with one distinct short line; the oldest is then written again,
            for i, sec in enumerate(secs):         # so the symbolic operations start after a redraw of all later sections has happened
                sec.write_line("PQR"[i])
                model[i].append("PQR"[i])
                appended.append("PQR"[i])
            secs[0].write_line("S")
            model[0].append("S")
            appended.append("S")
        for k, op in enumerate(ops):
            (si, kind, li), ind = op[:3], (op[3] if len(op) > 3 else 0)
            si = si % nsec
            s, m = secs[si], model[si]
            t = _text(w, li, LETTERS[k])
            if ind:                                # the operation runs inside an indentation scope opened on its section: every non-empty
                pad = " " * ind                    # line it writes is shown with that indentation - also after later redraws
                scope = s.indent(ind)
            else:
                pad, scope = "", None
            if kind == "clear0":                   # the boundary value of a partial clear: nothing or (as here) everything may go - but screen and section must agree
                s.clear(0)
                if s.content == "":
                    del m[:]
                kind = None
            if kind == "write_tagged":             # a line with style markup, one tag registered at construction and one added later: rows are counted on the VISIBLE text
                s.write_line("<b>" + t[:1] + "</b><late>" + t[1:] + "</late>")
                m.append(pad + t if t else t)
                appended.append(pad + t if t else t)
                kind = None
            if kind == "write_hidden":             # a write that its verbosity flag (or quiet mode) suppresses: nothing is shown and nothing is booked
                from clikit.api.io import flags as _F
                if li % 2:
                    s.write_line(t or "h", _F.VERY_VERBOSE)
                else:
                    s.set_quiet(True)
                    s.write_line(t or "h")
                    s.set_quiet(False)
                kind = None
            if kind == "overwrite_same":           # overwrite with exactly the first line the section currently shows
                kind = "overwrite"
                if m and m[0].strip() != "":
                    t = m[0].strip()
            if kind == "write_tail":               # a text that ends in a line break: the section then ends in an empty line
                s.write_line(t + "\n")
                m.extend([pad + t if t else t, ""])
                appended.extend([pad + t if t else t, ""])
                kind = None
            t_shown = pad + t if t else t
            if kind is None:
                pass
            elif kind == "write_line" and ind:
                s.write_line(t)
                m.append(t_shown)
                appended.append(t_shown)
            elif kind == "write_two" and ind:
                s.write_line(t + "\n" + "z")
                m.extend([t_shown, pad + "z"])
                appended.extend([t_shown, pad + "z"])
            elif kind == "overwrite" and ind:
                s.overwrite(t)
                del m[:]
                m.append(t_shown)
                appended.append(t_shown)
            elif kind == "write_line":
                s.write_line(t)
                m.append(t)
                appended.append(t)
            elif kind == "write_two":
                s.write_line(t + "\n" + "z")
                m.extend([t, "z"])
                appended.extend([t, "z"])
            elif kind == "overwrite":
                s.overwrite(t)
                del m[:]
                m.append(t)
                appended.append(t)
            elif kind == "clear":
                s.clear()
                del m[:]
            else:
                n = 1 if kind == "clear1" else 2
                if n > len(m):
                    if scope is not None:
                        scope.__exit__(None, None, None)
                    continue                       # clearing more lines than the section holds is outside a "partial clear"
                if ansi and m and kf.excluded("C15-clear-n-wrapped", any(len(x) > w for x in m[-n:])):
                    return True
                s.clear(n)
                if m:
                    del m[-n:]
            if scope is not None:
                scope.__exit__(None, None, None)
        if ansi and prefill:
            # afterwards the youngest section is given a formatter without ANSI support: from then on it is an output without ANSI support -
            # whatever it does next emits no control code
            mark = len(st.fetch())
            secs[-1].set_formatter(PlainFormatter())
            secs[-1].clear()
            secs[-1].overwrite("zz")
            tail_bytes = st.fetch()[mark:]
            if "\x1b" in tail_bytes or not tail_bytes.endswith("zz\n"):
                return False
            data = st.fetch()[:mark]
        else:
            data = st.fetch()
        if not ansi:
            # degrades to plain appended lines without any control code
            return "\x1b" not in data and data == "".join(x + "\n" for x in appended)
        scr = Screen(w)
        if not scr.feed(data):
            return False
        stacked = [x for m in model for x in m]
        if scr.text() != wrapped(stacked, w):
            return False
        # what each section reports as its content is what the model holds
        for s, m in zip(secs, model):
            if [x.rstrip(" ") for x in re.sub(r"</?(b|late)>", "", s.content).split("\n")] != [x.rstrip(" ") for x in "".join(x + "\n" for x in m).split("\n")]:
                return False                       # (blanks at the end of a line are invisible: an indented empty line may be kept as blanks)
        return True
    finally:
        termmod.Terminal.width = saved


def sequence(s1: int, k1: int, l1: int, s2: int, k2: int, l2: int, s3: int, k3: int, l3: int, s4: int, k4: int, l4: int) -> bool:
    """
    pre: 0 <= s1 < PART["nsec"] and 0 <= s2 < PART["nsec"] and 0 <= s3 < PART["nsec"] and 0 <= s4 < PART["nsec"]
    pre: 0 <= k1 < 6 and 0 <= k2 < 6 and 0 <= k3 < 6 and 0 <= k4 < 6
    pre: 0 <= l1 < NLEN and 0 <= l2 < NLEN and 0 <= l3 < NLEN and 0 <= l4 < NLEN
    pre: s1 == PART["s1"] and (PART["k1"] is None or (k1 == PART["k1"] and l1 == PART["l1"]))
    pre: PART["nops"] > 3 or (s4 == 0 and k4 == 0 and l4 == 0)
    pre: PART["nops"] > 2 or (s3 == 0 and k3 == 0 and l3 == 0)
    pre: _irrelevant_text_pinned(k1, l1) and _irrelevant_text_pinned(k2, l2) and _irrelevant_text_pinned(k3, l3) and _irrelevant_text_pinned(k4, l4)
    post: _
    """
    nsec = PART["nsec"]
    ops = [(conc_int(s, 0, nsec - 1), KINDS[conc_int(k, 0, 5)], conc_int(l, 0, NLEN - 1)) for s, k, l in ((s1, k1, l1), (s2, k2, l2), (s3, k3, l3), (s4, k4, l4))][: PART["nops"]]
    return untraced(_sequence_case, PART["w"], nsec, ops, PART["ansi"], PART.get("prefill", False))


KINDS_X = KINDS + ["write_tail", "overwrite_same", "clear0", "write_tagged", "write_hidden"]
LENS_X = [1, 3]           # indices into the length menu: 1 character, W + 1 characters
INDS_X = [0, 2]


def sequence_indent(s1: int, k1: int, l1: int, i1: int, s2: int, k2: int, l2: int, i2: int, s3: int, k3: int, l3: int, i3: int) -> bool:
    """
    pre: 0 <= s1 < PART["nsec"] and 0 <= s2 < PART["nsec"] and 0 <= s3 < PART["nsec"]
    pre: 0 <= k1 < 11 and 0 <= k2 < 11 and 0 <= k3 < 11
    pre: 0 <= l1 < 2 and 0 <= l2 < 2 and 0 <= l3 < 2 and 0 <= i1 < 2 and 0 <= i2 < 2 and 0 <= i3 < 2
    pre: s1 == PART["s1"] and i1 == PART["i1"] and (PART.get("k1") is None or k1 == PART["k1"])
    pre: PART["nops"] > 2 or (s3 == 0 and k3 == 0 and l3 == 0 and i3 == 0)
    post: _
    """
    nsec = PART["nsec"]
    ops = [(conc_int(s, 0, nsec - 1), KINDS_X[conc_int(k, 0, 10)], LENS_X[conc_int(l, 0, 1)], INDS_X[conc_int(i, 0, 1)])
           for s, k, l, i in ((s1, k1, l1, i1), (s2, k2, l2, i2), (s3, k3, l3, i3))][: PART["nops"]]
    return untraced(_sequence_case, PART["w"], nsec, ops, PART["ansi"], PART.get("prefill", False))


def _irrelevant_text_pinned(k, l):
    return l == 0 or k <= 2          # clear operations take no text


def sequence_twin(s1: int, k1: int, l1: int, s2: int, k2: int, l2: int, s3: int, k3: int, l3: int, s4: int, k4: int, l4: int) -> bool:
    """
    pre: s1 == 0 and k1 == 0 and l1 == 3 and s2 == 1 and k2 == 0 and 0 <= l2 < NLEN and s3 == 0 and 0 <= k3 < 6 and l3 == 1 and s4 == 0 and k4 == 0 and l4 == 0
    post: _
    """
    ops = [(0, "write_line", 3), (1, "write_line", conc_int(l2, 0, NLEN - 1)), (0, KINDS[conc_int(k3, 0, 5)], 1)]
    ok = untraced(_sequence_case, 3, 2, ops, True)
    return not (ok and ops[2][1] == "overwrite" and ops[1][2] == 4)     # twin: a wrapped line below a redrawn section really passes through the emulator


# ------------------------------------------------------------------------------------------------ E2

def smt_rows(tier):
    from vf import smtlib
    from vf.py2smt import Ctx, LenStr, run_method
    W = 16
    L, Wd = z3.BitVec("L", W), z3.BitVec("W", W)
    ctx = Ctx(bv=W)
    term = type("T", (), {})()
    term.width = Wd
    env = {"self._indent": 0, "self._lines": z3.BitVecVal(0, W), "self._terminal": term, "self._content": []}
    stubs = {"remove_format": lambda it, fr, args, guard: args[0], "replace": lambda it, fr, args, guard: fr.last_recv,
             "split": lambda it, fr, args, guard: [LenStr(L)], "append": lambda it, fr, args, guard: None}
    # `.replace("\t", ...)` on the abstract line: no tabs in scope, the line is returned unchanged
    ret, out = _run_add_content(ctx, env, stubs, LenStr(L))
    lines = out["self._lines"]
    exact = z3.If(L == 0, z3.BitVecVal(1, W), z3.UDiv(L + Wd - 1, Wd))
    pre = [L >= 0, L <= 4096, Wd >= 1, Wd <= 512]
    bad = []
    for l_, w_ in [(0, 5), (1, 5), (4, 5), (5, 5), (6, 5), (11, 5), (4096, 512), (4095, 1), (10, 3), (9, 3)]:
        enc = z3.simplify(z3.substitute(lines, (L, z3.BitVecVal(l_, W)), (Wd, z3.BitVecVal(w_, W)))).as_signed_long()
        if enc != _real_rows(l_, w_):
            bad.append((l_, w_, enc, _real_rows(l_, w_)))
    if bad:
        return {"verdict": "error", "message": "translator validation failed: %r" % bad[:5]}
    side = [c for _, c in ctx.side]
    goal = z3.Or(lines != exact, *side) if side else lines != exact
    r, model, dt = smtlib.check(pre + [goal], logic="QF_BVFP", timeout_s=400)
    detail = [{"obligation": "rows booked by add_content == rows used by a W-column terminal, 0<=L<=4096, 1<=W<=512 (cvc5 QF_BVFP)", "result": r, "solver_s": round(dt, 2)}]
    if r == "sat":
        return {"verdict": "refuted", "args": {"L": model["L"], "W": model["W"]}, "queries": 1, "solver_s": round(dt, 2), "detail": detail}
    if r != "unsat":
        return {"verdict": "unknown", "queries": 1, "solver_s": round(dt, 2), "detail": detail, "message": "solver answered " + r}
    w, _, dt2 = smtlib.check(pre + [lines == 3, Wd == 5], logic="QF_BVFP", timeout_s=100)
    if w != "sat":
        if w != "unsat":
            return {"verdict": "unknown", "message": "vacuity witness inconclusive (solver answered %s)" % w}
        return {"verdict": "error", "message": "vacuity witness failed"}
    return {"verdict": "confirmed", "queries": 2, "solver_s": round(dt + dt2, 2), "detail": detail}


def smt_clear_step(tier):
    """One inductive step of the row bookkeeping, from an ARBITRARY section state that satisfies the representation invariant
    `lines == sum of the rows of the content lines` (K content lines of symbolic lengths, symbolic terminal width):
    clear() and clear(n) - translated from the current source - must erase exactly the rows of the removed lines and re-establish the invariant.
    Histories of any length only produce such states (add_content keeps the invariant by the smt_rows lemma)."""
    from vf.py2smt import Ctx, LenStr, run_method
    W = 16
    results, queries, solver_s = [], 0, 0.0
    kmax = 3 if tier == "quick" else 5
    for K in range(1, kmax + 1):
        Wd = z3.BitVec("W", W)
        Ls = [z3.BitVec("L%d" % i, W) for i in range(K)]
        rows = [z3.If(l == 0, z3.BitVecVal(1, W), z3.UDiv(l + Wd - 1, Wd)) for l in Ls]
        total = z3.BitVecVal(0, W)
        for r in rows:
            total = total + r
        lines0 = z3.BitVec("lines0", W)
        pre = [Wd >= 1, Wd <= 512, lines0 == total] + [z3.And(l >= 0, l <= 2048) for l in Ls]
        for n in [None] + list(range(1, K + 1)):
            ctx = Ctx(bv=W)
            rec = {}

            def pop_stub(it, fr, args, guard, rec=rec):
                rec["arg"] = args[0] if args else 0
                rec["guard"] = guard
                return "erased"

            content = []
            for l in Ls:
                content += [LenStr(l), "\n"]
            env = {"self._content": content, "self._lines": lines0}
            stubs = {"supports_ansi": lambda it, fr, args, guard: True, "force_ansi": lambda it, fr, args, guard: True,
                     "_pop_stream_content_until_current_section": pop_stub, "write": lambda it, fr, args, guard: None}
            ret, out = run_method(SectionOutput, "clear", env, [n], ctx, stubs=stubs)
            keep = K - (n or K)
            want_lines = z3.BitVecVal(0, W)
            for r in rows[:keep]:
                want_lines = want_lines + r
            removed_rows = z3.BitVecVal(0, W)
            for r in rows[keep:]:
                removed_rows = removed_rows + r
            new_content = out["self._content"]
            if len(new_content) != 2 * keep or "arg" not in rec:
                return {"verdict": "refuted" if "arg" in rec else "error", "args": {"K": K, "n": n, "W": 5, "L": [1] * K}, "message": "clear(%r) on %d lines leaves %d content entries" % (n, K, len(new_content))}
            arg = ctx.lift(rec["arg"]) if not isinstance(rec["arg"], z3.ExprRef) else rec["arg"]
            bad = z3.Or(out["self._lines"] != want_lines, arg != removed_rows, ctx.exc, z3.Not(rec["guard"]))
            one_row = [l <= Wd for l in Ls[keep:]] if n is not None else []       # clear(n) on lines that wrap: known finding C15-clear-n-wrapped, outside this obligation
            r_, model, dt = _z3_check(pre + one_row + [bad])
            queries += 1
            solver_s += dt
            results.append({"obligation": "K=%d, clear(%s): rows erased == rows of the removed lines and the invariant holds afterwards%s" % (K, "" if n is None else n, "" if n is None else " (removed lines not wider than the terminal)"),
                            "result": r_, "solver_s": round(dt, 2)})
            if r_ == "sat":
                return {"verdict": "refuted", "args": {"K": K, "n": n, "W": model[Wd].as_long(), "L": [model.eval(l, model_completion=True).as_long() for l in Ls]},
                        "queries": queries, "detail": results, "message": results[-1]["obligation"]}
            if r_ != "unsat":
                return {"verdict": "unknown", "queries": queries, "detail": results, "message": "solver answered " + r_}
            if n is not None:
                w_, _, dt = _z3_check(pre + [bad])          # reachability / documentation of the excluded region: with a wrapped line the obligation fails
                queries += 1
                results.append({"witness": "K=%d, clear(%d) without the exclusion is violated (known finding region)" % (K, n), "result": w_})
    # translator validation: the encoding agrees with the real class on concrete states
    for (w_, lens, n) in [(5, [1, 3], 1), (5, [4, 5, 0], 2), (3, [2, 2, 2], None), (7, [7], 1), (4, [0, 1, 4, 3], 3)]:
        real = _real_clear(w_, lens, n)
        keep = len(lens) - (n or len(lens))
        exp_rows = lambda l: 1 if l == 0 else -(-l // w_)
        if real != (sum(exp_rows(l) for l in lens[:keep]), 2 * keep, sum(exp_rows(l) for l in lens[keep:])):
            return {"verdict": "refuted", "args": {"K": len(lens), "n": n, "W": w_, "L": lens}, "message": "concrete validation state fails"}
    return {"verdict": "confirmed", "queries": queries, "solver_s": round(solver_s, 2), "detail": results}


def _z3_check(assertions, timeout_ms=120000):
    import time as _t
    s_ = z3.Solver()
    s_.set("timeout", timeout_ms)
    s_.add(*assertions)
    t0 = _t.time()
    r = str(s_.check())
    return r, (s_.model() if r == "sat" else None), _t.time() - t0


def _real_clear(w_, lens, n):
    """(lines afterwards, content entries afterwards, rows the cursor was moved up) of a real SectionOutput."""
    saved = termmod.Terminal.width
    termmod.Terminal.width = property(lambda self: w_)
    try:
        st = BufferedOutputStream()
        s_ = Output(st, AnsiFormatter(forced=True)).section()
        for l in lens:
            s_.add_content("x" * l)
        before = len(st.fetch())
        s_.clear(n)
        m = re.search(r"\x1b\[(\d+)A", st.fetch()[before:])
        return (s_.lines, len(s_._content), int(m.group(1)) if m else 0)
    finally:
        termmod.Terminal.width = saved


def _replay_clear_step(args):
    w_, lens, n = int(args["W"]), [int(x) for x in args["L"]], args["n"]
    keep = len(lens) - (n or len(lens))
    rows = lambda l: 1 if l == 0 else -(-l // w_)
    got = _real_clear(w_, lens, n)
    exp = (sum(rows(l) for l in lens[:keep]), 2 * keep, sum(rows(l) for l in lens[keep:]))
    if n is not None and any(l > w_ for l in lens[keep:]):
        return None                  # the known-finding region is not this obligation's
    return None if got == exp else "section with lines of lengths %r at width %d: clear(%r) gives (rows booked, content entries, rows erased) = %r, exact: %r" % (lens, w_, n, got, exp)


def _run_add_content(ctx, env, stubs, line):
    from vf.py2smt import run_method
    env = dict(env)
    env["__line__"] = line
    return run_method(SectionOutput, "add_content", env, [line], ctx, stubs=stubs)


def _real_rows(l_, w_):
    saved = termmod.Terminal.width
    termmod.Terminal.width = property(lambda self: w_)
    try:
        s = Output(BufferedOutputStream(), AnsiFormatter(forced=True)).section()
        s.add_content("x" * l_)
        return s.lines
    finally:
        termmod.Terminal.width = saved


def _replay_rows(args):
    l_, w_ = int(args["L"]), int(args["W"])
    got = _real_rows(l_, w_)
    exact = 1 if l_ == 0 else -(-l_ // w_)
    return None if got == exact else "add_content books %d rows for a %d-character line at width %d (a terminal uses %d)" % (got, l_, w_, exact)


def conditions(tier):
    quick = tier == "quick"
    t = 120 if quick else 1500
    conds = [{"name": "smt_rows", "engine": "smt", "fn": smt_rows, "timeout": 600, "replay": _replay_rows,
              "bounds": "all 0 <= L <= 4096, 1 <= W <= 512 (cvc5 QF_BVFP over the translated add_content)"}]
    conds.append({"name": "smt_clear_step", "engine": "smt", "fn": smt_clear_step, "timeout": 600, "replay": _replay_clear_step,
                  "bounds": "inductive step: any section state with K <= %d content lines of lengths 0..2048 satisfying lines == sum(rows), any width 1..512; clear() and clear(n), n = 1..K (z3 QF_BV over the translated SectionOutput.clear)" % (3 if quick else 5)})
    # (width, sections, symbolic operations, ANSI, sections prefilled with one line each, first operation pinned per condition)
    configs = [(3, 2, 3, True, False, True), (5, 3, 2, True, True, False), (3, 2, 2, False, False, False), (3, 2, 2, "tty-plain", False, False)] if quick else \
              [(2, 2, 3, True, False, True), (3, 3, 3, True, True, True), (5, 2, 3, True, False, True), (8, 3, 3, True, True, True), (3, 2, 3, False, False, True), (5, 2, 3, "tty-plain", False, True)]
    for w, nsec, nops, ansi, prefill, pin_first in configs:
        for s1 in range(nsec):
            firsts = [(k1, l1) for k1 in range(6) for l1 in (range(NLEN) if k1 <= 2 else [0])] if pin_first else [(None, None)]
            for k1, l1 in firsts:
                conds.append({"name": "sequence[w=%d,%dsec%s,%dops,%s,first=s%d%s]" % (w, nsec, "+prefill" if prefill else "", nops, "ansi" if ansi is True else ("plain" if ansi is False else ansi), s1, "" if k1 is None else ".%s.%d" % (KINDS[k1], l1)),
                              "fn": sequence, "timeout": t,
                              "part": {"w": w, "nsec": nsec, "nops": nops, "ansi": ansi, "s1": s1, "k1": k1, "l1": l1, "prefill": prefill},
                              "bounds": "width %d, %d sections%s, %d operations, first on section %d%s; the others symbolic over sections x %r x text lengths {0,1,W,W+1,2W+1}; %s" % (
                                  w, nsec, " (each prefilled with one line)" if prefill else "", nops, s1, "" if k1 is None else " = %s(text length #%d)" % (KINDS[k1], l1), KINDS, "ANSI" if ansi is True else ("plain output" if ansi is False else "ANSI-capable stream with a formatter that disables ANSI"))})
    # indentation scopes around the operations, texts ending in a line break, overwriting with the text already shown
    iconf = [(5, 2, 2, True, True), (5, 2, 2, False, False)] if quick else [(5, 2, 3, True, True), (4, 3, 2, True, True), (5, 2, 3, False, False)]
    for w, nsec, nops, ansi, prefill in iconf:
        for s1 in range(nsec):
            for i1 in range(2):
                for k1 in ([None] if nops == 2 else range(11)):
                    conds.append({"name": "sequence_indent[w=%d,%dsec,%dops,%s,first=s%d.indent%d%s]" % (w, nsec, nops, "ansi" if ansi else "plain", s1, INDS_X[i1], "" if k1 is None else "." + KINDS_X[k1]),
                                  "fn": sequence_indent, "timeout": t, "part": {"w": w, "nsec": nsec, "nops": nops, "ansi": ansi, "s1": s1, "i1": i1, "k1": k1, "prefill": prefill},
                                  "bounds": "width %d, %d sections%s, %d operations over sections x %r x text lengths {1, W+1} x indentation scope {0, 2} on the section; %s" % (
                                      w, nsec, " (prefilled)" if prefill else "", nops, KINDS_X, "ANSI" if ansi else "plain output")})
    conds.append({"name": "sequence_twin", "fn": sequence_twin, "timeout": t, "expect": "refute", "part": {"w": 3, "nsec": 2, "nops": 3, "ansi": True, "s1": 0, "k1": 0, "l1": 3}, "bounds": "reachability twin"})
    return conds

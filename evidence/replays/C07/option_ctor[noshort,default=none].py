#!/verif/.venv/bin/python
# Replays a counterexample on the real code in /repo/src (no solver involved).
import os, sys, json
sys.path[:0] = ['/verif', '/repo/src']
from vf.replay import replay
ARGS = json.loads('{"low": 33, "tsel": 0, "nullable": true, "undefined": true}')
r = replay('harness.c07', 'option_ctor[noshort,default=none]', ARGS)
print('REPRODUCED: ' + r if r else 'NOT-REPRODUCED')
sys.exit(1 if r else 0)

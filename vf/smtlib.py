"""Back end for QF_BVFP queries: cvc5 1.4 (python wheel, in-process) fed with the SMT-LIB text exported by z3py.

z3 5.1 needs minutes for the float-division kernels that cvc5 closes in seconds (DESIGN.md 5); z3 is used for
QF_BV / LIA directly.  `check` returns (result, model, seconds) where result is 'sat' / 'unsat' / 'unknown'
and model maps declared names to python values (ints for bit-vectors interpreted as signed, floats for Float64).
Any parse problem raises - an error is never turned into a verdict.
"""
import struct
import time

import z3


def _fp_to_float(term):
    # cvc5 FP value -> python float via its IEEE bit pattern
    e, s_, bits = term.getFloatingPointValue()
    raw = int(bits.getBitVectorValue(2), 2)
    return struct.unpack(">d", raw.to_bytes(8, "big"))[0]


def check(assertions, logic="QF_BVFP", timeout_s=120):
    import cvc5
    zs = z3.Solver()
    zs.add(*assertions)
    text = "(set-logic %s)\n" % logic + zs.to_smt2()
    for z3only in ("bvsdiv_i", "bvudiv_i", "bvsrem_i", "bvurem_i", "bvsmod_i"):      # z3's "divisor known non-zero" variants
        text = text.replace(z3only, z3only[:-2])
    slv = cvc5.Solver()
    slv.setOption("produce-models", "true")
    slv.setOption("tlimit-per", str(int(timeout_s * 1000)))
    parser = cvc5.InputParser(slv)
    parser.setStringInput(cvc5.InputLanguage.SMT_LIB_2_6, text, "query")
    sm = parser.getSymbolManager()
    while True:
        cmd = parser.nextCommand()
        if cmd.isNull():
            break
        if cmd.getCommandName() in ("check-sat", "set-logic") and cmd.getCommandName() == "check-sat":
            continue
        cmd.invoke(slv, sm)
    t = time.time()
    r = slv.checkSat()
    dt = time.time() - t
    if r.isUnsat():
        return "unsat", None, dt
    if r.isSat():
        model = {}
        for term in sm.getDeclaredTerms():
            val = slv.getValue(term)
            name = str(term)
            if val.isBitVectorValue():
                bits = val.getBitVectorValue(2)
                n = int(bits, 2)
                if bits[0] == "1":
                    n -= 1 << len(bits)
                model[name] = n
            elif val.isFloatingPointValue():
                model[name] = _fp_to_float(val)
            elif val.isBooleanValue():
                model[name] = val.getBooleanValue()
            else:
                model[name] = str(val)
        return "sat", model, dt
    return "unknown", None, dt

#!/verif/.venv/bin/python
# Replays a counterexample on the real code in /repo/src (no solver involved).
import os, sys, json
sys.path[:0] = ['/verif', '/repo/src']
from vf.replay import replay
ARGS = json.loads('{"d1": 2, "d2": 0, "d3": 0, "d4": 0, "d5": 0, "k": 1}')
r = replay('harness.c19', 'manual[saa]', ARGS, 'quick')
print('REPRODUCED: ' + r if r else 'NOT-REPRODUCED')
sys.exit(1 if r else 0)

#!/verif/.venv/bin/python
# Replays a counterexample on the real code in /repo/src (no solver involved).
import os, sys, json
sys.path[:0] = ['/verif', '/repo/src']
from vf.replay import replay
ARGS = json.loads('{"s1": 1, "k1": 2, "l1": 2, "s2": 0, "k2": 0, "l2": 4, "s3": 1, "k3": 2, "l3": 3, "s4": 0, "k4": 0, "l4": 0}')
r = replay('harness.c15', 'sequence[w=3,2sec,3ops,ansi,first=s1.overwrite.2]', ARGS, 'quick')
print('REPRODUCED: ' + r if r else 'NOT-REPRODUCED')
sys.exit(1 if r else 0)

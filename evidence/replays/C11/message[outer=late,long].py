#!/verif/.venv/bin/python
# Replays a counterexample on the real code in /repo/src (no solver involved).
import os, sys, json
sys.path[:0] = ['/verif', '/repo/src']
from vf.replay import replay
ARGS = json.loads('{"p0": 0, "p1": 0, "p2": 3, "p3": 0, "p4": 0, "ti": 5, "tj": 4, "short": false}')
r = replay('harness.c11', 'message[outer=late,long]', ARGS, 'quick')
print('REPRODUCED: ' + r if r else 'NOT-REPRODUCED')
sys.exit(1 if r else 0)

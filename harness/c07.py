"""C07 - option and argument flags are validated and normalised consistently; names; typed conversion.

E2 (AST -> SMT, z3 QF_BV): `_validate_flags` / `_validate_short_name` (flag part) / `_add_default_flags` of
Option, CommandOption (AbstractOption) and Argument are translated from the source found in /repo at run
time; obligations are single `unsat` queries over a 16-bit flag word, i.e. every flag word incl. all
undefined bits below 2**16 - no bound inside the defined bit range.
E1 (CrossHair): the whole constructors with symbolic flags / default kind (predicates, defaults), names over
a small alphabet, conversions.
"""
import time
from typing import Optional

import z3

from clikit.api.args.format.abstract_option import AbstractOption
from clikit.api.args.format.argument import Argument
from clikit.api.args.format.command_option import CommandOption
from clikit.api.args.format.option import Option
from clikit.utils.string import parse_boolean, parse_float, parse_int, parse_string

PROPERTY = "C07"
FUNCTIONS = ["AbstractOption._validate_flags/_validate_short_name/_add_default_flags/__init__", "Option._validate_flags/_add_default_flags/__init__/set_default/parse + predicates",
             "Argument._validate_flags/_add_default_flags/__init__/set_default/parse + predicates", "CommandOption.__init__/_validate_*_alias",
             "utils.string.parse_string/parse_boolean/parse_int/parse_float"]
PART = {}
EXTRA_BOUNDS = 'also: 0-5 leading dashes before bodies <= 2 (thorough 3) chars; set_default(each of 7 default kinds incl. a tuple / no argument) after construction with each kind; name alphabet incl. long-s and Kelvin sign; int round trip also around 2**53, -10**19, 10**30.'
BOUNDS = {"quick": "E2: every 16-bit flag word x short-name presence (one unsat query per obligation); E1 constructors: structured flag words (6 low bits x type-bit selections x NULLABLE x undefined bits) for options, [0,1024) for arguments x short name x default kind {none, scalar, list, empty string, 0, empty list}; "
                   "names: length <= 3 over {a,Z,1,-,_,e-acute,newline,long-s,Kelvin-sign} with and without dash prefix; conversions: int text of every int with |n| <= 10**6, texts of length <= 3 over {1,-,.,e,n,u,l,i,f,space}",
          "thorough": "same with names up to length 4 and conversion texts up to length 4"}
OUTSIDE = ["parse_float(repr(x)) == x for arbitrary floats: repr()/float() are C code and realise the symbolic value; only a pinned list of floats is pushed through (reported as concretised, not decided)",
           "flag words >= 2**16 in the E2 obligations (E1 contracts take them up to the stated range)"]
STUBS = []
ASSUMPTIONS = ["documented contradictions = those listed in the property statement; 'well-formed' long name = >= 2 chars, ASCII letter first, then ASCII letters/digits/hyphens; short name = exactly one ASCII letter; argument name = >= 1 char of the same shape"]

BV = 16


def _b(x, m):
    return (x & m) != 0


def _count(x, masks):
    return z3.Sum([z3.If(_b(x, m), 1, 0) for m in masks])


def _solve(goal, timeout_ms=60000):
    s = z3.Solver()
    s.set("timeout", timeout_ms)
    s.add(goal)
    t = time.time()
    r = s.check()
    return str(r), (s.model() if str(r) == "sat" else None), time.time() - t


def _translate(cls, has_short):
    """Symbolic run of the flag part of the constructor of `cls`: returns (flags, rejected, normalised)."""
    from vf.py2smt import Ctx, run_method
    flags = z3.BitVec("flags", BV)
    ctx = Ctx(bv=BV)
    run_method(cls, "_validate_flags", {}, [flags], ctx)
    if issubclass(cls, AbstractOption):
        run_method(cls, "_validate_short_name", {}, ["o" if has_short else None, flags], ctx, start_cls=cls)
    rejected = z3.simplify(ctx.exc)
    ctx2 = Ctx(bv=BV)
    env = {"self._short_name": "o" if has_short else None}
    ret, _ = run_method(cls, "_add_default_flags", env, [flags], ctx2)
    return flags, rejected, ret, ctx2


OPT_TYPES = (Option.STRING, Option.BOOLEAN, Option.INTEGER, Option.FLOAT)
ARG_TYPES = (Argument.STRING, Argument.BOOLEAN, Argument.INTEGER, Argument.FLOAT)


def _opt_spec_reject(f, has_short):
    PL, PS = AbstractOption.PREFER_LONG_NAME, AbstractOption.PREFER_SHORT_NAME
    c = [z3.And(_b(f, PL), _b(f, PS)),
         z3.And(_b(f, Option.NO_VALUE), z3.Or(_b(f, Option.REQUIRED_VALUE), _b(f, Option.OPTIONAL_VALUE), _b(f, Option.MULTI_VALUED))),
         z3.And(_b(f, Option.OPTIONAL_VALUE), _b(f, Option.MULTI_VALUED)),
         _count(f, OPT_TYPES) > 1]
    if not has_short:
        c.append(_b(f, PS))
    return z3.Or(*c)


def _validate_translation(cls, has_short, flags, rejected, ret, step=5):
    """Translator validation: the formula evaluated on concrete flag words must agree with the real constructor."""
    bad = []
    n = 0
    limit = 1 << (13 if cls is not Argument else 11)
    for fl in list(range(0, limit, step)) + [limit - 1, limit, 3, 12, 20, 36, 48, 60000]:
        n += 1
        try:
            if cls is Argument:
                obj = Argument("arg", fl)
            elif cls is CommandOption:
                obj = CommandOption("opt", "o" if has_short else None, None, fl)
            else:
                obj = Option("opt", "o" if has_short else None, fl)
            real_rej, real_flags = False, obj.flags
        except ValueError:
            real_rej, real_flags = True, None
        sub = (flags, z3.BitVecVal(fl, BV))
        m_rej = z3.is_true(z3.simplify(z3.substitute(rejected, sub)))
        if m_rej != real_rej:
            bad.append(fl)
        elif not real_rej:
            m_flags = z3.simplify(z3.substitute(ret, sub)).as_long()
            if m_flags != real_flags % (1 << BV):
                bad.append(fl)
    return n, bad


def _smt_condition(cls, has_short):
    def run(tier):
        t0 = time.time()
        flags, rejected, ret, ctx2 = _translate(cls, has_short)
        n_val, bad = _validate_translation(cls, has_short, flags, rejected, ret)
        if bad:
            return {"verdict": "error", "message": "translator validation failed on flag words %r" % bad[:10]}
        obligations = []
        if cls is Argument:
            spec_rej = z3.Or(z3.And(_b(flags, Argument.REQUIRED), _b(flags, Argument.OPTIONAL)), _count(flags, ARG_TYPES) > 1)
            post = z3.And(_count(ret, ARG_TYPES) == 1,
                          z3.Or(_b(ret, Argument.REQUIRED), _b(ret, Argument.OPTIONAL)),
                          z3.Not(z3.And(_b(ret, Argument.REQUIRED), _b(ret, Argument.OPTIONAL))),
                          (ret & flags) == flags,
                          (ret & ~(flags | Argument.OPTIONAL | Argument.STRING)) == 0)
        elif cls is CommandOption:
            PL, PS = AbstractOption.PREFER_LONG_NAME, AbstractOption.PREFER_SHORT_NAME
            spec_rej = z3.Or(z3.And(_b(flags, PL), _b(flags, PS)), z3.BoolVal(False) if has_short else _b(flags, PS))
            post = z3.And(_b(ret, PL) != _b(ret, PS), (ret & flags) == flags, z3.Implies(_b(ret, PS), z3.BoolVal(has_short)))
        else:
            PL, PS = AbstractOption.PREFER_LONG_NAME, AbstractOption.PREFER_SHORT_NAME
            spec_rej = _opt_spec_reject(flags, has_short)
            modes = (Option.NO_VALUE, Option.REQUIRED_VALUE, Option.OPTIONAL_VALUE, Option.MULTI_VALUED)
            post = z3.And(_count(ret, OPT_TYPES) == 1,
                          _b(ret, PL) != _b(ret, PS),
                          z3.Implies(_b(ret, PS), z3.BoolVal(has_short)),
                          z3.Implies(_b(ret, Option.NO_VALUE), z3.Not(z3.Or(_b(ret, Option.REQUIRED_VALUE), _b(ret, Option.OPTIONAL_VALUE), _b(ret, Option.MULTI_VALUED)))),
                          z3.Implies(_b(ret, Option.MULTI_VALUED), _b(ret, Option.REQUIRED_VALUE)),
                          _count(ret, modes) >= 1,
                          (ret & flags) == flags,
                          z3.Implies(z3.And(*[z3.Not(_b(flags, m)) for m in modes]), _b(ret, Option.NO_VALUE)))
        obligations.append(("accept <=> free of documented contradictions", rejected != spec_rej))
        obligations.append(("accepted => normalised flags consistent", z3.And(z3.Not(rejected), z3.Not(post))))
        # vacuity witnesses: both outcomes reachable
        witnesses = [("some word is accepted", z3.Not(rejected)), ("some word is rejected", rejected)]
        solver_s = 0.0
        details = []
        for name, goal in obligations:
            r, model, dt = _solve(goal)
            solver_s += dt
            details.append({"obligation": name, "result": r, "solver_s": round(dt, 3)})
            if r == "sat":
                fl = model[flags].as_long() if model[flags] is not None else 0
                return {"verdict": "refuted", "args": {"cls": cls.__name__, "has_short": has_short, "flags": fl, "obligation": name},
                        "queries": len(details), "solver_s": round(solver_s, 3), "detail": details, "message": name}
            if r != "unsat":
                return {"verdict": "unknown", "queries": len(details), "solver_s": round(solver_s, 3), "detail": details, "message": "solver answered " + r}
        for name, goal in witnesses:
            r, model, dt = _solve(goal)
            solver_s += dt
            details.append({"witness": name, "result": r})
            if r != "sat":
                if r != "unsat":
                    return {"verdict": "unknown", "message": "vacuity witness inconclusive (solver answered %s)" % r}
                return {"verdict": "error", "message": "vacuity witness failed: " + name, "detail": details}
        return {"verdict": "confirmed", "queries": len(details), "solver_s": round(solver_s, 3), "wall_s": round(time.time() - t0, 2),
                "detail": details + [{"translator_validation": "%d concrete flag words agree with the real constructor" % n_val}]}
    return run


def _replay_flags(args):
    """Replay an E2 model on the real constructor: recompute spec and normalisation natively."""
    cls = {"Option": Option, "Argument": Argument, "CommandOption": CommandOption}[args["cls"]]
    fl, hs = args["flags"], args["has_short"]
    try:
        if cls is Argument:
            obj = Argument("arg", fl)
        elif cls is CommandOption:
            obj = CommandOption("opt", "o" if hs else None, None, fl)
        else:
            obj = Option("opt", "o" if hs else None, fl)
        accepted, nf = True, obj.flags
    except ValueError:
        accepted, nf = False, None
    spec = _native_spec(cls, fl, hs)
    if accepted != spec:
        return "%s(flags=%d, short=%s): constructor %s but the documented rules say %s" % (cls.__name__, fl, hs, "accepts" if accepted else "rejects", "accept" if spec else "reject")
    if accepted and not _native_post(cls, fl, nf, hs):
        return "%s(flags=%d, short=%s): normalised flags %d are inconsistent" % (cls.__name__, fl, hs, nf)
    return None


def _pop(x, masks):
    return sum(1 for m in masks if x & m)


def _native_spec(cls, f, hs):
    if cls is Argument:
        return not ((f & 1 and f & 2) or _pop(f, ARG_TYPES) > 1)
    bad = bool(f & 1 and f & 2) or (bool(f & 2) and not hs)
    if cls is Option:
        bad = bad or bool(f & 4 and f & (8 | 16 | 32)) or bool(f & 16 and f & 32) or _pop(f, OPT_TYPES) > 1
    return not bad


def _native_post(cls, f, nf, hs):
    if nf & f != f:
        return False
    if cls is Argument:
        return _pop(nf, ARG_TYPES) == 1 and bool(nf & 1) != bool(nf & 2)
    ok = bool(nf & 1) != bool(nf & 2) and (hs or not nf & 2)
    if cls is Option:
        ok = ok and _pop(nf, OPT_TYPES) == 1 and (not nf & 4 or not nf & (8 | 16 | 32)) and (not nf & 32 or nf & 8) and _pop(nf, (4, 8, 16, 32)) >= 1
    return bool(ok)


# ---------------------------------------------------------------- E1: whole constructors

DEFAULTS = [None, "x", ["x"], "", 0, [], ("x",)]          # none / scalar / list / falsy scalars / empty list / a tuple (a sequence, but not a list)
DEFAULT_NAMES = ["none", "scalar", "list", "empty-string", "zero", "empty-list", "tuple"]


def _is_list(dk):
    return dk in (2, 5)


TYPE_SEL = [0, 128, 256, 512, 1024, 128 | 256, 512 | 1024, 256 | 1024]


def _split_bits(x, nbits):
    """Finite-domain split of a small symbolic int into a concrete one (one path per value)."""
    out = 0
    for k in range(nbits):
        if (x // (2 ** k)) % 2 == 1:
            out += 2 ** k
    return out


def _split_small(x, n):
    for v in range(n):
        if x == v:
            return v
    return 0


def option_ctor(low: int, tsel: int, nullable: bool, undefined: bool) -> bool:
    """
    pre: 0 <= low < 64
    pre: 0 <= tsel < 8
    post: _
    """
    has_short, dk = PART["has_short"], PART["dk"]
    flags = _split_bits(low, 6) + TYPE_SEL[_split_small(tsel, 8)] + (2048 if nullable else 0) + (4096 + 64 if undefined else 0)
    try:
        o = Option("opt", "o" if has_short else None, flags, None, DEFAULTS[dk])
        accepted = True
    except ValueError:
        accepted = False
    f = flags
    ntypes = (f // 128) % 2 + (f // 256) % 2 + (f // 512) % 2 + (f // 1024) % 2
    no_value, req, opt, multi = (f // 4) % 2 == 1, (f // 8) % 2 == 1, (f // 16) % 2 == 1, (f // 32) % 2 == 1
    pl, ps = f % 2 == 1, (f // 2) % 2 == 1
    flags_ok = not ((pl and ps) or (ps and not has_short) or (no_value and (req or opt or multi)) or (opt and multi) or ntypes > 1)
    value_less = no_value or not (req or opt or multi)
    default_ok = not (value_less and dk != 0) and not (multi and dk != 0 and not _is_list(dk))
    if accepted != (flags_ok and default_ok):
        return False
    if not accepted:
        return True
    nf = o.flags
    types = (nf // 128) % 2 + (nf // 256) % 2 + (nf // 512) % 2 + (nf // 1024) % 2
    if types != 1:
        return False
    if o.is_long_name_preferred() == o.is_short_name_preferred():
        return False
    if o.accepts_value() == value_less:
        return False
    if value_less and (o.is_value_required() or o.is_value_optional() or o.is_multi_valued() or o.default is not None):
        return False
    if multi and not (o.is_multi_valued() and o.is_value_required() and isinstance(o.default, list)):
        return False
    if multi and o.default != ([] if dk == 0 else DEFAULTS[dk]):
        return False
    if not value_less and not multi and o.default != DEFAULTS[dk]:
        return False
    return True


def option_ctor_twin(low: int, tsel: int, nullable: bool, undefined: bool) -> bool:
    """
    pre: 0 <= low < 64
    pre: 0 <= tsel < 8
    post: _
    """
    flags = _split_bits(low, 6) + TYPE_SEL[_split_small(tsel, 8)]
    try:
        o = Option("opt", None, flags, None, ["x"])
    except ValueError:
        return True
    return not (o.is_multi_valued() and o.default == ["x"])


def argument_ctor(flags: int) -> bool:
    """
    pre: 0 <= flags < 1024
    post: _
    """
    dk = PART["dk"]
    flags = _split_bits(flags, 10)
    try:
        a = Argument("arg", flags, None, DEFAULTS[dk])
        accepted = True
    except ValueError:
        accepted = False
    f = flags
    required, optional, multi = f % 2 == 1, (f // 2) % 2 == 1, (f // 4) % 2 == 1
    ntypes = (f // 16) % 2 + (f // 32) % 2 + (f // 64) % 2 + (f // 128) % 2
    flags_ok = not ((required and optional) or ntypes > 1)
    default_ok = not (required and dk != 0) and not (multi and dk != 0 and not _is_list(dk))
    if accepted != (flags_ok and default_ok):
        return False
    if not accepted:
        return True
    nf = a.flags
    if (nf // 16) % 2 + (nf // 32) % 2 + (nf // 64) % 2 + (nf // 128) % 2 != 1:
        return False
    if a.is_required() == a.is_optional() or a.is_required() != required:
        return False
    if a.is_multi_valued() != multi:
        return False
    if multi:
        return a.default == ([] if dk == 0 else DEFAULTS[dk])
    return a.default == DEFAULTS[dk] and type(a.default) is type(DEFAULTS[dk])


# ---------------------------------------------------------------- E1: names

NAME_ALPHA = "aZ1-_é\n\u017f\u212a"      # incl. two characters that case-fold to ASCII letters (long s, Kelvin sign): not ASCII, not well-formed
ASCII_LETTERS = "abcdefghijklmnopqrstuvwxyzABCDEFGHIJKLMNOPQRSTUVWXYZ"
ASCII_ALNUM_HY = ASCII_LETTERS + "0123456789-"


def _is_letter(c):
    return ("a" <= c <= "z") or ("A" <= c <= "Z")


def _is_alnum_hy(c):
    return _is_letter(c) or ("0" <= c <= "9") or c == "-"


def _wf(name, minlen):
    if len(name) < minlen or len(name) == 0:
        return False
    if not _is_letter(name[0]):
        return False
    for c in name:
        if not _is_alnum_hy(c):
            return False
    return True


def _conc(s, alphabet):
    """Split the finite domain up front: returns an ordinary str equal to s (one solver-chosen path per string)."""
    out = ""
    for c in s:
        for a in alphabet:
            if c == a:
                out += a
                break
    return out


def _accepts(make):
    try:
        make()
        return True
    except ValueError:
        return False


def long_name(s: str, dashes: bool) -> bool:
    """
    pre: len(s) == PART["n"]
    pre: PART.get("dashes") is None or dashes == PART["dashes"]
    pre: all(c in NAME_ALPHA for c in s)
    post: _
    """
    s = _conc(s, NAME_ALPHA)     # clikit validates names with `re`: the engine's regex model is not trusted (see DESIGN 2.1), the real `re` runs on the split-out string
    given = ("--" + s) if dashes else s
    acc = _accepts(lambda: Option(given))
    acc2 = _accepts(lambda: CommandOption(given))
    # without the prefix a name that itself starts with "--" is stripped too: compare against the stripped form
    eff = given[2:] if given.startswith("--") else given
    exp = _wf(eff, 2)
    if acc != exp or acc2 != exp:
        return False
    if acc and Option(given).long_name != eff:
        return False
    return True


def short_name(s: str, dash: bool) -> bool:
    """
    pre: len(s) == PART["n"]
    pre: all(c in NAME_ALPHA for c in s)
    post: _
    """
    s = _conc(s, NAME_ALPHA)     # clikit validates names with `re`: the engine's regex model is not trusted (see DESIGN 2.1), the real `re` runs on the split-out string
    given = ("-" + s) if dash else s
    acc = _accepts(lambda: Option("opt", given))
    eff = given[1:] if given.startswith("-") else given
    exp = len(eff) == 1 and _is_letter(eff)
    if acc != exp:
        return False
    if acc and Option("opt", given).short_name != eff:
        return False
    return True


def argument_name(s: str) -> bool:
    """
    pre: len(s) == PART["n"]
    pre: all(c in NAME_ALPHA for c in s)
    post: _
    """
    s = _conc(s, NAME_ALPHA)     # clikit validates names with `re`: the engine's regex model is not trusted (see DESIGN 2.1), the real `re` runs on the split-out string
    return _accepts(lambda: Argument(s)) == _wf(s, 1)


def alias_name(s: str) -> bool:
    """
    pre: len(s) == PART["n"]
    pre: all(c in NAME_ALPHA for c in s)
    post: _
    """
    s = _conc(s, NAME_ALPHA)     # clikit validates names with `re`: the engine's regex model is not trusted (see DESIGN 2.1), the real `re` runs on the split-out string
    acc = _accepts(lambda: CommandOption("opt", None, [s]))
    eff = s[1:] if s.startswith("-") else s
    if len(eff) == 1:
        exp = _is_letter(eff)
    else:
        exp = _wf(eff, 2)
    if acc != exp:
        return False
    if acc:
        co = CommandOption("opt", None, [s])
        return (co.short_aliases == [eff]) if len(eff) == 1 else (co.long_aliases == [eff])
    return True


# ---- dash prefixes of every length: k dashes (0..5) in front of a short body (the property: "with or without their dash prefix" - exactly that prefix)
BODY_ALPHA = "aZ1-"


def dashed_name(k: int, body: str) -> bool:
    """
    pre: 0 <= k <= 5
    pre: len(body) <= PART["n"]
    pre: all(c in BODY_ALPHA for c in body)
    post: _
    """
    k = _split_small(k, 6)
    body = _conc(body, BODY_ALPHA)
    given = "-" * k + body
    # long names: exactly one optional "--" is stripped, the rest must be well-formed
    eff = given[2:] if given.startswith("--") else given
    exp = _wf(eff, 2)
    acc = _accepts(lambda: Option(given))
    if acc != exp or _accepts(lambda: CommandOption(given)) != exp:
        return False
    if acc and (Option(given).long_name != eff or CommandOption(given).long_name != eff):
        return False
    # short names: exactly one optional "-"
    seff = given[1:] if given.startswith("-") else given
    sexp = len(seff) == 1 and _is_letter(seff)
    sacc = _accepts(lambda: Option("opt", given))
    if sacc != sexp or (sacc and Option("opt", given).short_name != seff):
        return False
    # aliases: a leading run of dashes is not part of a well-formed alias beyond the documented prefix
    aacc = _accepts(lambda: CommandOption("opt", None, [given]))
    if aacc:
        co = CommandOption("opt", None, [given])
        names = co.long_aliases + co.short_aliases
        if len(names) != 1 or not _wf(names[0], 1) or not given.endswith(names[0]) or len(given) - len(names[0]) > 2:
            return False
    elif _wf(given, 1):
        return False
    # argument names take no prefix at all
    return _accepts(lambda: Argument(given)) == _wf(given, 1)


# ---- the default can be replaced after construction: set_default(d) must leave the object as constructing it with d would
def option_set_default(low: int, tsel: int, d1: int, d2: int) -> bool:
    """
    pre: 0 <= low < 16
    pre: 0 <= tsel < 5
    pre: d1 == PART["d1"] and 0 <= d2 < 8
    post: _
    """
    flags = 4 * _split_bits(low, 4) + [0, 128, 256, 512, 1024][_split_small(tsel, 5)]
    d1, d2 = _split_small(d1, 7), _split_small(d2, 8)
    try:
        o = Option("opt", "o", flags, None, DEFAULTS[d1])
    except ValueError:
        return True
    try:
        if d2 == 7:
            o.set_default()                      # no argument: back to "no default"
        else:
            o.set_default(DEFAULTS[d2])
        changed = True
    except ValueError:
        changed = False
    want = DEFAULTS[0] if d2 == 7 else DEFAULTS[d2]
    try:
        ref = Option("opt", "o", flags, None, want)
        ref_ok = True
    except ValueError:
        ref_ok = False
    if changed != ref_ok and not (not changed and want is None and not o.accepts_value()):
        return False         # (refusing even "no default" on a value-less option is the documented behaviour of set_default: it stays without a default)
    if not changed:
        return o.default == Option("opt", "o", flags, None, DEFAULTS[d1]).default      # a rejected replacement leaves the old default
    if o.default != ref.default or type(o.default) is not type(ref.default):
        return False
    if o.is_multi_valued() and not isinstance(o.default, list):
        return False
    if not o.accepts_value() and o.default is not None:
        return False
    return True


def argument_set_default(flags: int, tsel: int, d1: int, d2: int) -> bool:
    """
    pre: 0 <= flags < 8 and 0 <= tsel < 3
    pre: 0 <= d1 < 7 and 0 <= d2 < 8
    post: _
    """
    flags = _split_bits(flags, 3) + [0, 32, 128][_split_small(tsel, 3)]
    d1, d2 = _split_small(d1, 7), _split_small(d2, 8)
    try:
        a = Argument("arg", flags, None, DEFAULTS[d1])
    except ValueError:
        return True
    try:
        if d2 == 7:
            a.set_default()
        else:
            a.set_default(DEFAULTS[d2])
        changed = True
    except ValueError:
        changed = False
    want = DEFAULTS[0] if d2 == 7 else DEFAULTS[d2]
    try:
        ref = Argument("arg", flags, None, want)
        ref_ok = True
    except ValueError:
        ref_ok = False
    if changed != ref_ok and not (not changed and want is None and a.is_required()):
        return False         # (a required argument refuses set_default() altogether and stays without a default)
    if not changed:
        return a.default == Argument("arg", flags, None, DEFAULTS[d1]).default
    if a.default != ref.default or type(a.default) is not type(ref.default):
        return False
    if a.is_multi_valued() and not isinstance(a.default, list):
        return False
    return not (a.is_required() and a.default is not None and a.default != [])


# ---------------------------------------------------------------- E1: conversions

_INT_OPT = Option("opt", None, Option.REQUIRED_VALUE | Option.INTEGER)
_INT_ARG = Argument("arg", Argument.INTEGER)


def int_roundtrip(n: int, nullable: bool) -> bool:
    """
    pre: PART["lo"] <= n <= PART["hi"]
    post: _
    """
    return parse_int(str(n), nullable) == n and _INT_OPT.parse(str(n)) == n and _INT_ARG.parse(str(n)) == n


def bool_forms(i: int, nullable: bool) -> bool:
    """
    pre: 0 <= i < 10
    post: _
    """
    forms = [("true", True), ("1", True), ("yes", True), ("on", True), ("false", False), ("0", False), ("no", False), ("off", False),
             (str(True).lower(), True), (str(False).lower(), False)]
    text, val = forms[i]
    r = parse_boolean(text, nullable)
    return r is val and Option("opt", None, Option.REQUIRED_VALUE | Option.BOOLEAN).parse(text) is val


CONV_ALPHA = "1-.enulif "


def conv_total(s: str, kind: int, nullable: bool) -> bool:
    """
    pre: len(s) == PART["n"]
    pre: all(c in CONV_ALPHA for c in s)
    pre: 0 <= kind <= 3
    pre: PART.get("kind") is None or kind == PART["kind"]
    pre: PART.get("first") is None or s[0] == PART["first"]
    post: _
    """
    kind = _split_small(kind, 4)
    fn = [parse_string, parse_boolean, parse_int, parse_float][kind]
    typ = [str, bool, int, float][kind]
    s = _conc(s, CONV_ALPHA)       # int()/float() are C code: the engine's own models of them crash or realise
    try:
        r = fn(s, nullable)
    except ValueError:
        return True          # the only documented failure
    if r is None:
        return nullable and s == "null"
    if kind == 2 and isinstance(r, bool):
        return False
    return isinstance(r, typ)


def conv_typed_objects(s: str, kind: int, nullable: bool) -> bool:
    """
    pre: len(s) == PART["n"]
    pre: all(c in CONV_ALPHA for c in s)
    pre: 0 <= kind <= 3
    pre: PART.get("kind") is None or kind == PART["kind"]
    pre: PART.get("first") is None or s[0] == PART["first"]
    post: _
    """
    kind = _split_small(kind, 4)
    fn = [parse_string, parse_boolean, parse_int, parse_float][kind]
    s = _conc(s, CONV_ALPHA)
    opt, arg = _TYPED[(kind, True if nullable else False)]
    outs = []
    for call in (lambda: opt.parse(s), lambda: arg.parse(s), lambda: fn(s, nullable)):
        try:
            outs.append(("ok", call()))
        except ValueError:
            outs.append(("ValueError", None))
    return outs[0] == outs[2] and outs[1] == outs[2]


_TYPED = {}
for _k in range(4):
    for _n in (False, True):
        _TYPED[(_k, _n)] = (Option("opt", None, Option.REQUIRED_VALUE | [Option.STRING, Option.BOOLEAN, Option.INTEGER, Option.FLOAT][_k] | (Option.NULLABLE if _n else 0)),
                            Argument("arg", [Argument.STRING, Argument.BOOLEAN, Argument.INTEGER, Argument.FLOAT][_k] | (Argument.NULLABLE if _n else 0)))


def float_pinned(tier):
    """Concretised (NOT decided by the solver): parse_float(repr(x)) == x on a pinned list; reported as such."""
    xs = [0.0, -0.0, 1.0, -1.5, 0.1, 1e-320, 5e-324, 1.7976931348623157e308, 123456789.123456789, 2.0 ** 53 + 2, 1 / 3, 1e22, 1e23]
    for x in xs:
        if parse_float(repr(x), False) != x or parse_float(repr(x), True) != x:
            return {"verdict": "refuted", "args": {"x": x}, "message": "parse_float(repr(x)) != x"}
    return {"verdict": "confirmed", "queries": 0, "paths": 0, "engine": "native (concretised)", "detail": "%d pinned floats; outside the solver-decided claim" % len(xs)}


def conditions(tier):
    quick = tier == "quick"
    t = 90 if quick else 900
    conds = []
    for cls in (Option, CommandOption, Argument):
        for hs in ((True, False) if cls is not Argument else (False,)):
            conds.append({"name": "smt_flags[%s,%s]" % (cls.__name__, "short" if hs else "noshort"), "engine": "smt", "fn": _smt_condition(cls, hs), "timeout": 120,
                          "replay": _replay_flags,
                          "bounds": "every 16-bit flag word; source of _validate_flags/_validate_short_name/_add_default_flags translated to QF_BV"})
    for hs in (True, False):
        for dk in range(len(DEFAULTS)):
            conds.append({"name": "option_ctor[%s,default=%s]" % ("short" if hs else "noshort", DEFAULT_NAMES[dk]), "fn": option_ctor, "timeout": t,
                          "part": {"has_short": hs, "dk": dk},
                          "bounds": "flag words = any of the 6 low bits x type bits in {none, each single type, three conflicting pairs} x NULLABLE x two undefined bits (64, 4096)"})
    conds.append({"name": "option_ctor_twin", "fn": option_ctor_twin, "timeout": t, "expect": "refute", "bounds": "reachability twin"})
    for dk in range(len(DEFAULTS)):
        conds.append({"name": "argument_ctor[default=%s]" % DEFAULT_NAMES[dk], "fn": argument_ctor, "timeout": t, "part": {"dk": dk},
                      "bounds": "every flag word in [0,1024) (all defined argument bits + two undefined)"})
    nmax = 3 if quick else 4
    for n in range(0, nmax + 1):
        for dashes in ([None] if n < 3 else [False, True]):
            conds.append({"name": "long_name[len=%d%s]" % (n, "" if dashes is None else (",with --" if dashes else ",bare")), "fn": long_name, "timeout": t, "part": {"n": n, "dashes": dashes},
                          "bounds": "all names of length %d over {a,Z,1,-,_,e-acute,newline,long-s,Kelvin-sign}, %s" % (n, "with and without '--'" if dashes is None else ("with '--'" if dashes else "without prefix"))})
        conds.append({"name": "argument_name[len=%d]" % n, "fn": argument_name, "timeout": t, "part": {"n": n}, "bounds": "all names of length %d" % n})
        conds.append({"name": "alias_name[len=%d]" % n, "fn": alias_name, "timeout": t, "part": {"n": n}, "bounds": "all aliases of length %d" % n})
    conds.append({"name": "dashed_name[body<=%d]" % (2 if quick else 3), "fn": dashed_name, "timeout": t, "part": {"n": 2 if quick else 3},
                  "bounds": "0..5 leading dashes followed by every body of length <= %d over {a,Z,1,-}: Option / CommandOption long name, short name, alias, Argument name" % (2 if quick else 3)})
    for d1 in range(len(DEFAULTS)):
        conds.append({"name": "option_set_default[from=%s]" % DEFAULT_NAMES[d1], "fn": option_set_default, "timeout": t, "part": {"d1": d1},
                      "bounds": "every combination of the four value-mode bits x {no type, each single type}, constructed with default kind %s, then set_default(each of 6 kinds) / set_default()" % DEFAULT_NAMES[d1]})
    conds.append({"name": "argument_set_default", "fn": argument_set_default, "timeout": t,
                  "bounds": "REQUIRED/OPTIONAL/MULTI_VALUED bits x {no type, BOOLEAN, FLOAT}, constructed with each of 6 default kinds, then set_default(each of 6 kinds) / set_default()"})
    for n in range(0, 3):
        conds.append({"name": "short_name[len=%d]" % n, "fn": short_name, "timeout": t, "part": {"n": n}, "bounds": "all short names of length %d, with and without '-'" % n})
    for lo, hi in [(-9, 9), (10, 99), (-99, -10), (100, 999), (-999, -100), (1000, 99999), (-99999, -1000), (10 ** 5, 10 ** 6), (-10 ** 6, -10 ** 5), (2 ** 53 - 5, 2 ** 53 + 5), (-(10 ** 19) - 5, -(10 ** 19) + 5), (10 ** 30, 10 ** 30 + 9)]:
        conds.append({"name": "int_roundtrip[%d..%d]" % (lo, hi), "fn": int_roundtrip, "timeout": t, "part": {"lo": lo, "hi": hi}, "bounds": "every int in [%d, %d]" % (lo, hi)})
    conds.append({"name": "bool_forms", "fn": bool_forms, "timeout": t, "bounds": "the ten boolean text forms"})
    for n in range(0, nmax + 1):
        for kind, first in ([(None, None)] if n < 3 else [(k, f) for k in (0, 1, 2, 3) for f in (CONV_ALPHA if k >= 2 else [None])]):
            tag = "len=%d" % n + ("" if kind is None else ",%s" % ["str", "bool", "int", "float"][kind]) + ("" if first is None else ",first=%r" % first)
            conds.append({"name": "conv_total[%s]" % tag, "fn": conv_total, "timeout": t, "part": {"n": n, "kind": kind, "first": first}, "bounds": "all texts of length %d over {1,-,.,e,n,u,l,i,f,space} x %s x nullable" % (n, "4 types" if kind is None else "one type")})
            conds.append({"name": "conv_typed_objects[%s]" % tag, "fn": conv_typed_objects, "timeout": t, "part": {"n": n, "kind": kind, "first": first}, "bounds": "Option.parse / Argument.parse agree with the converter, same texts"})
    conds.append({"name": "float_pinned", "engine": "native", "fn": float_pinned, "timeout": 60, "bounds": "13 pinned floats (concretised; not a solver claim)",
                  "replay": lambda a: "parse_float(repr(%r)) != x" % a["x"]})
    return conds

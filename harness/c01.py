"""C01 - parsing a well-formed command line recovers exactly the intended values.

E1 (CrossHair), generator-as-oracle: the contract starts from a symbolic ASSIGNMENT (which options are
given, their values, the positional values) and a symbolic SPELLING of it (--n=v / --n v / -nv / -n v,
where the options sit among the positionals, command names or aliases or omitted, a '--' tail), builds
the token list, parses it with the real parser and requires exactly that assignment back - through
arguments()/options() with and without defaults and through access by long name, short name, position.
"""
from clikit.args.argv_args import ArgvArgs
from clikit.args.default_args_parser import DefaultArgsParser

from harness import pfmt
from vf.sym import untraced

PROPERTY = "C01"
FUNCTIONS = ["DefaultArgsParser.parse (+ all helpers)", "Args.arguments/options/option/argument/is_option_set/is_argument_set/set_option/set_argument",
             "Option.parse / Argument.parse", "ArgsFormat.get_option/get_argument/has_*", "utils.string.parse_*"]
PART = {}
EXTRA_BOUNDS = "also: two skeletons inside a three-level tree of formats whose sibling was used first; every '--n v' spelling on a parser object that rejected a line before; grouped short options on a four-option format (any subset/order of two flags, optionally ended by a required-INTEGER or optional-text option with attached / separate / absent value); INTEGER values in symbolic ranges around 2**53, 10**18, -2**63, 10**40."
BOUNDS = {"quick": "10 format skeletons (two of them inside a three-level tree of formats whose sibling was used first; value mode x type x nullable x short name, required/optional/multi-valued typed arguments, 2 command names with aliases, base format); "
                   "<= 3 options given, values = 1-2 symbolic characters over {a,1,=,-,space} or str(n) for |n| <= 12 (quick) / 99 (thorough) or boolean/float/null texts, 4 spellings, options inserted at a symbolic place among <= 3 positionals, "
                   "command names spelled by name / alias / omitted, optional '--' followed by 1 token that may start with '-', strict and lenient",
          "thorough": "same with larger budgets, two different places for the options, 2 tail tokens"}
OUTSIDE = ["formats with 4-5 options or 4 arguments", "values longer than 2 characters, non-ASCII values", "all options share one spelling style and one (quick) or two (thorough) insertion places per line",
           "float-typed values other than three pinned texts"]
STUBS = []
ASSUMPTIONS = ["a value spelled in a separate token must be non-empty and must not start with '-' (the parser documents that such a token is not taken as a value); "
               "an optional-value option given without a value must be the last token before '--' or the end (otherwise the next positional is its value by design)",
               "positional values are not spelled like a command name of the format"]

VAL_ALPHA = "a1=- "
BOOL_TEXT = [("true", True), ("false", False), ("1", True), ("0", False), ("yes", True), ("off", False)]
FLOAT_TEXT = [("1.5", 1.5), ("-2.0", -2.0), ("1e3", 1000.0)]


def _conc_small(k, n):
    for i in range(n):
        if k == i:
            return i
    return 0


def _spell(o, sp, text):
    """Tokens spelling option o with value text `text` in style sp (0: --n=v, 1: --n v, 2: -nv, 3: -n v)."""
    if o.mode == "flag":
        return ["-" + o.short] if (sp >= 2 and o.short) else ["--" + o.long]
    if sp == 0 or (sp >= 2 and not o.short):
        return ["--" + o.long + "=" + text] if sp != 3 else ["--" + o.long, text]
    if sp == 1:
        return ["--" + o.long, text]
    if sp == 2:
        return ["-" + o.short + text]
    return ["-" + o.short, text]


def _separate(o, sp):
    if o.mode == "flag":
        return False
    if sp == 1 or sp == 3:
        return True
    return False


def _typed(o_typ, nullable, s, n, bi, usenull):
    """(text, expected value) of a value for a parameter of the given type."""
    if nullable and usenull:
        return "null", None
    if o_typ == "int":
        return str(n), n
    if o_typ == "bool":
        t = BOOL_TEXT[_conc_small(bi, len(BOOL_TEXT))]
        return t[0], t[1]
    if o_typ == "float":
        t = FLOAT_TEXT[_conc_small(bi, len(FLOAT_TEXT))]
        return t[0], t[1]
    return s, s


def _dims():
    skel = pfmt.SKELS_ALL[PART["skel"]]
    nopts = min(3, len(skel.all_opts))
    has_multi = any(a.kind.startswith("multi") for a in skel.all_args)
    maxpos = len(skel.all_args) + (1 if has_multi else 0)
    return {"nopts": nopts, "maxpos": maxpos, "cmds": bool(skel.all_cmds),
            "optmode": any(o.mode == "opt" for o in skel.all_opts[:3]), "nullable": any(o.nullable for o in skel.all_opts[:3]),
            "bi": any(o.typ in ("bool", "float") for o in skel.all_opts[:3]) or any(a.typ in ("bool", "float") for a in skel.all_args),
            "int": any(o.typ == "int" for o in skel.all_opts[:3]), "intarg": any(a.typ == "int" for a in skel.all_args)}


def line_structure(given: int, place: int, place2: int, novalue: bool, npos: int, cmd: int, dd: int, lenient: bool) -> bool:
    """
    pre: 0 <= given < 2 ** _dims()["nopts"]
    pre: 0 <= npos <= _dims()["maxpos"]
    pre: 0 <= place <= npos and 0 <= place2 <= npos
    pre: PART.get("two_places") or place2 == place
    pre: 0 <= cmd <= (3 if _dims()["cmds"] else 0)
    pre: 0 <= dd <= 2
    pre: _dims()["optmode"] or not novalue
    post: _
    """
    return _line(given, PART["sp"], place, place2, "a", 5, 0, False, novalue, npos, "1", "a=", 7, cmd, dd, "-a", "", lenient)


def line_values(s: str, n: int, bi: int, usenull: bool, p1: str, p2: str, n2: int, tail: str, tail2: str, lenient: bool) -> bool:
    """
    pre: 1 <= len(s) <= 2 and all(c in VAL_ALPHA for c in s)
    pre: (-PART.get("nmax", 12) <= n <= PART.get("nmax", 12)) if _dims()["int"] else n == 0
    pre: (-PART.get("nmax", 12) <= n2 <= PART.get("nmax", 12)) if _dims()["intarg"] else n2 == 0
    pre: (0 <= bi < 6) if _dims()["bi"] else bi == 0
    pre: _dims()["nullable"] or not usenull
    pre: 1 <= len(p1) <= 2 and all(c in "a1=" for c in p1)
    pre: (len(p2) <= 2 and all(c in "a1= " for c in p2)) if _dims()["maxpos"] >= 2 else p2 == ""
    pre: len(tail) <= 2 and all(c in "a-=" for c in tail)
    pre: (len(tail2) <= 1 and all(c in "a-" for c in tail2)) if PART.get("tail2") else tail2 == ""
    post: _
    """
    d = _dims()
    npos = d["maxpos"]
    return _line(2 ** d["nopts"] - 1, PART["sp"], min(1, npos), min(1, npos), s, n, bi, usenull, False, npos, p1, p2, n2, 0, 2 if npos > 0 else 1, tail if npos > 0 else "", tail2, lenient)


def _line(given, sp, place, place2, s, n, bi, usenull, novalue, npos, p1, p2, n2, cmd, dd, tail, tail2, lenient):
    skel = pfmt.SKELS_ALL[PART["skel"]]
    opts, args, cmds = skel.all_opts, skel.all_args, skel.all_cmds
    sp = _conc_small(sp, 4)
    given = _conc_small(given, 8)
    # ---- the assignment
    exp_opts = {}
    groups = []           # (place, tokens)
    multi_order = []
    trailing = []         # an optional-value option given without a value goes last
    for i, o in enumerate(opts[:3]):
        if not (given >> i) & 1:
            continue
        if o.mode == "flag":
            exp_opts[o.long] = True
            groups.append((place if i != 1 else place2, _spell(o, sp, None)))
            continue
        text, val = _typed(o.typ, o.nullable, s, n, bi, usenull)
        if _separate(o, sp) and (text == "" or text[0] == "-"):
            return True                      # not expressible in a separate token (documented)
        if o.mode == "opt" and novalue:
            exp_opts[o.long] = o.default if o.default is None else pfmt_parse(o, o.default)
            trailing.append(["--" + o.long] if sp < 2 or not o.short else ["-" + o.short])
            continue
        if o.mode == "multi":
            text2, val2 = _typed(o.typ, o.nullable, "a" + s[:1], n + 1, bi, False)
            multi_order.append((o.long, place, val, place2, val2))
            groups.append((place, _spell(o, sp, text)))
            groups.append((place2, _spell(o, (sp + 1) % 4, text2) if not (_separate(o, (sp + 1) % 4) and text2[0] == "-") else _spell(o, 0, text2)))
            continue
        exp_opts[o.long] = val
        groups.append((place if i != 1 else place2, _spell(o, sp, text)))
    if len(trailing) > 1:
        return True
    # ---- positionals
    nreq = sum(1 for a in args if a.kind in ("req", "multireq"))
    has_multi = any(a.kind.startswith("multi") for a in args)
    maxpos = len(args) + (1 if has_multi else 0)
    npos = _conc_small(npos, 4)
    if npos < nreq or npos > maxpos:
        return True
    raw_pos = [p1, p2, "a" + p1][:npos]
    dd = _conc_small(dd, 3)
    use_dd = dd > 0
    # positionals after '--' may look like options: the last one is replaced by the tail token
    n_before = npos
    if use_dd and npos > 0 and dd == 2:
        raw_pos[npos - 1] = tail
        n_before = npos - 1
    if any(p == "" for p in raw_pos[:n_before]) and False:
        return True
    exp_args = {}
    texts = []
    k = 0
    for a in args:
        if k >= npos:
            break
        if a.kind.startswith("multi"):
            vals = []
            while k < npos:
                t, v = _typed(a.typ, False, raw_pos[k], n2 + k, bi, False) if a.typ != "str" else (raw_pos[k], raw_pos[k])
                texts.append(t)
                vals.append(v)
                k += 1
            exp_args[a.name] = vals
        else:
            t, v = _typed(a.typ, False, raw_pos[k], n2 + k, bi, False) if a.typ != "str" else (raw_pos[k], raw_pos[k])
            texts.append(t)
            exp_args[a.name] = v
            k += 1
    for j, t in enumerate(texts[:n_before]):
        if t[:1] == "-":
            return True                      # a positional before '--' that starts with '-' is an option by definition
    for long, pl1, v1, pl2, v2 in multi_order:      # multi-values are reported in command-line order
        exp_opts[long] = [v1, v2] if min(pl1, n_before) <= min(pl2, n_before) else [v2, v1]
    extra_tail = []
    if use_dd and has_multi and tail2 != "" and npos >= 1:
        # one more arbitrary token after '--' goes to the multi-valued argument
        last = [a for a in args if a.kind.startswith("multi")][0]
        if last.typ == "str" and last.name in exp_args:
            exp_args[last.name] = exp_args[last.name] + [tail2]
            extra_tail = [tail2]
    # ---- command names
    cmd = _conc_small(cmd, 4)
    cmd_tokens = []
    if cmds:
        if cmd == 0:
            cmd_tokens = [c[0] for c in cmds]
        elif cmd == 1:
            cmd_tokens = [c[1][0] for c in cmds]
        elif cmd == 2:
            cmd_tokens = [cmds[0][0]] + [c[1][0] for c in cmds[1:]]
        else:
            cmd_tokens = []              # all omitted
    names = set()
    for c in cmds:
        names.add(c[0])
        names.update(c[1])
    if any(t in names for t in texts):
        return True
    # ---- the spelling
    tokens = list(cmd_tokens)
    for kpos in range(n_before + 1):
        for pl, toks in groups:
            if min(pl, n_before) == kpos:
                tokens += toks
        if kpos < n_before:
            tokens.append(texts[kpos])
    for tr in trailing:
        tokens += tr
    if use_dd:
        tokens.append("--")
        tokens += texts[n_before:] + extra_tail
    # ---- parse and compare
    for wskel, wtokens in skel.warm:         # another format of the same tree has been used before (concrete line: run with the tracer off)
        untraced(_warm, wskel.fmt, wtokens)
    parser = DefaultArgsParser()
    if PART.get("reuse"):                    # the parser object has been used before, for a line that was rejected
        untraced(_reject_one, parser, skel.fmt)
    res = parser.parse(ArgvArgs(["prog"] + tokens), skel.fmt, lenient)
    if res.options(False) != exp_opts or res.arguments(False) != exp_args:
        return False
    full_opts = dict(exp_opts)
    for o in opts:
        if o.long not in full_opts:
            full_opts[o.long] = o.unset_value()
    full_args = dict(exp_args)
    for a in args:
        if a.name not in full_args:
            full_args[a.name] = a.unset_value()
    if res.options(True) != full_opts or res.arguments(True) != full_args:
        return False
    for o in opts:
        if res.option(o.long) != full_opts[o.long]:
            return False
        if res.is_option_set(o.long) != (o.long in exp_opts):
            return False
        if o.short and (res.option(o.short) != full_opts[o.long] or res.is_option_set(o.short) != (o.long in exp_opts)):
            return False
    for idx, a in enumerate(args):
        if res.argument(a.name) != full_args[a.name] or res.argument(idx) != full_args[a.name]:
            return False
        if res.is_argument_set(a.name) != (a.name in exp_args) or res.is_argument_set(idx) != (a.name in exp_args):
            return False
    return True


def _reject_one(parser, fmt):
    try:
        parser.parse(ArgvArgs(["prog", "p", "q", "r", "s", "t", "--no-such-option"]), fmt, False)
    except Exception:  # noqa - rejected, as intended
        pass


def _warm(fmt, tokens):
    DefaultArgsParser().parse(ArgvArgs(["prog"] + list(tokens)), fmt, True)


def grouped(flags: int, order: bool, last: int, how: int, n: int, s: str, pos: int, lenient: bool) -> bool:
    """
    pre: 0 <= flags <= 3 and 0 <= last <= 2 and 0 <= how <= 2 and -9 <= n <= 12 and 0 <= pos <= 2
    pre: len(s) == 1 and s in "ab1"
    pre: flags > 0 or last > 0
    pre: last == PART["last"]
    post: _
    """
    # grouped short options: any subset / order of the flags -v -q, optionally ended by a value option (-n INTEGER required, -t optional text)
    # whose value is attached ('-vqn5'), in the next token ('-vqn 5') or - for the optional one - absent ('-vqt')
    skel = pfmt.SKELS_ALL["S13"]
    flags, last, how, pos = _conc_small(flags, 4), _conc_small(last, 3), _conc_small(how, 3), _conc_small(pos, 3)
    letters = ("v" if flags & 1 else "") + ("q" if flags & 2 else "")
    if order:
        letters = letters[::-1]
    exp = {}
    if flags & 1:
        exp["verbose"] = True
    if flags & 2:
        exp["quiet"] = True
    group, extra = "-" + letters, []
    if last == 1:                              # -n: a value is required
        if how == 2:
            return True
        text = str(n)
        if how == 1 and text[0] == "-":
            return True                        # a separate token starting with '-' is not a value (documented)
        group += "n" + (text if how == 0 else "")
        extra = [text] if how == 1 else []
        exp["num"] = n
    elif last == 2:                            # -t: the value is optional
        group += "t" + (s if how == 0 else "")
        extra = [s] if how == 1 else []
        exp["tag"] = s if how != 2 else "dflt"
    if group == "-":
        return True
    # the group goes before the positional, after it, or the value-less form goes last
    if how == 2 and last == 2:
        tokens = ["w", group] if pos != 0 else [group]
        exp_args = {"a": "w"} if pos != 0 else {}
    elif pos == 0:
        tokens, exp_args = [group] + extra, {}
    elif pos == 1:
        tokens, exp_args = [group] + extra + ["w"], {"a": "w"}
    else:
        tokens, exp_args = ["w", group] + extra, {"a": "w"}
    res = DefaultArgsParser().parse(ArgvArgs(["prog"] + tokens), skel.fmt, lenient)
    return res.options(False) == exp and res.arguments(False) == exp_args and res.option("n") == exp.get("num") and res.option("t") == exp.get("tag", "dflt")


def int_values(n: int, spell: int, lenient: bool) -> bool:
    """
    pre: PART["lo"] <= n <= PART["hi"] and 0 <= spell <= 2
    post: _
    """
    # integer values far beyond what a float represents exactly come back as exactly that integer (option and positional)
    spell = _conc_small(spell, 3)
    tokens = [["--num=" + str(n)], ["-n" + str(n)], ["--num", str(n)]][spell]
    if spell == 2 and n < 0:
        return True
    res = DefaultArgsParser().parse(ArgvArgs(["prog"] + tokens), pfmt.SKELS_ALL["S13"].fmt, lenient)
    if res.option("num") != n or type(res.option("num")) is not int:
        return False
    if n < 0:
        return True
    res2 = DefaultArgsParser().parse(ArgvArgs(["prog", "--", str(n)]), pfmt.S3.fmt, lenient)
    return res2.argument("a") == n and type(res2.argument("a")) is int


def pfmt_parse(o, text):
    if not isinstance(text, str):
        return text                    # a default of the declared native type is reported as it is
    return {"int": int, "float": float, "str": str, "bool": lambda t: t in ("true", "1", "yes", "on")}[o.typ](text)


def line_twin(s: str, n: int, bi: int, usenull: bool, p1: str, p2: str, n2: int, tail: str, tail2: str, lenient: bool) -> bool:
    """
    pre: len(s) == 1 and all(c in VAL_ALPHA for c in s)
    pre: n == 0 and n2 == 0 and bi == 0 and not usenull
    pre: len(p1) == 1 and len(p2) == 1 and all(c in "a1=" for c in p1) and all(c in "a1= " for c in p2)
    pre: len(tail) == 2 and all(c in "a-=" for c in tail) and tail2 == ""
    post: _
    """
    # reachability twin on S1: a line with both options, two positionals and an option-like tail really gets through to the comparison
    ok = line_values(s, n, bi, usenull, p1, p2, n2, tail, tail2, lenient)
    return not (ok and tail[0] == "-")


def conditions(tier):
    quick = tier == "quick"
    t = 100 if quick else 600
    conds = []
    for sk in sorted(list(pfmt.SKELS) + list(pfmt.SKELS_CHAIN), key=lambda k: int(k[1:])):
        for sp in (range(4) if sk in pfmt.SKELS else (0, 3)):       # (the tree skeletons only have a flag option: two spelling styles suffice)
            for fam in ("structure", "values"):
                conds.append({"name": "line[%s,sp%d,%s]" % (sk, sp, fam), "fn": line_structure if fam == "structure" else line_values, "timeout": t,
                              "part": {"skel": sk, "sp": sp, "two_places": not quick, "tail2": not quick, "family": fam, "reuse": sp == 1, "nmax": (12 if quick else 99) if sk in pfmt.SKELS else (3 if quick else 12)},
                              "bounds": ("format %s, spelling style %d (%s); " % (sk, sp, ["--n=v", "--n v", "-nv", "-n v"][sp])) + (
                                  "STRUCTURE family: symbolic = which options are given, their place(s) among the positionals, number of positionals, command-name spelling (name/alias/mixed/omitted), '--' and where, value-less optional option, leniency; values pinned"
                                  if fam == "structure" else
                                  "VALUES family: symbolic = option value (1-2 chars over {a,1,=,-,space}), int values in [-99,99], boolean/float/null texts, positional values, the option-like token after '--', leniency; structure pinned (all options given at place 1, all positionals, '--' before the last)")})
    for last in range(3):
      conds.append({"name": "grouped[S13,%s]" % ["flags only", "ending in -n", "ending in -t"][last], "fn": grouped, "timeout": t, "part": {"skel": "S13", "last": last},
                  "bounds": "grouped short options on format S13 (-v, -q flags; -n INTEGER required value; -t optional text value): every subset and order of the flags, optionally ended by a value option with its value attached / in the next token / absent; "
                            "int values in [-9,12], text values from {a,b,1}; before / after a positional; strict and lenient"})
    for lo, hi in [(2 ** 53 - 4, 2 ** 53 + 6), (10 ** 18 - 3, 10 ** 18 + 3), (-(2 ** 63) - 2, -(2 ** 63) + 2), (10 ** 40, 10 ** 40 + 2)]:
        conds.append({"name": "int_values[%s..]" % (str(lo)[:22] + ("..." if len(str(lo)) > 22 else "")), "fn": int_values, "timeout": t, "part": {"lo": lo, "hi": hi},
                      "bounds": "every int in [%s, +%d]: INTEGER option (three spellings) and INTEGER argument report exactly that integer" % (str(lo)[:22], hi - lo)})
    conds.append({"name": "line_twin", "fn": line_twin, "timeout": t, "expect": "refute", "part": {"skel": "S1", "sp": 3}, "bounds": "reachability twin"})
    return conds

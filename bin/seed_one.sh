#!/bin/bash
# usage: seed_one.sh <patch file> <property> [tier] [extra run.py args]  - apply a change in a SCRATCH worktree, run the check there, remove it
P=$(readlink -f "$1"); ID=$2; TIER=${3:-quick}; shift; shift; shift
W=/tmp/seedone.$$
git -C /repo worktree add -q --detach $W HEAD || exit 3
trap 'git -C /repo worktree remove --force $W' EXIT
git -C $W apply "$P" || { echo "PATCH DOES NOT APPLY"; exit 3; }
(cd /verif && VERIF_REPO=$W ./check "$ID" "$TIER" "$@") > /tmp/seedone.$$.log 2>&1; RC=$?
grep -E "^VIOLATION|violation in|ENGINE-ERROR|conditions," /tmp/seedone.$$.log | cut -c1-400 | head -${SEED_LINES:-12}
echo "exit=$RC"; rm -f /tmp/seedone.$$.log

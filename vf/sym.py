"""Helpers shared by the harnesses for FINITE domains.

Where the code under test uses an input as a dictionary key, passes it to `re` or to other C code, the
engine would realise it anyway (or, for `re`, model it unsoundly).  The harness then splits the finite
domain explicitly - one solver decision per value, so "all paths closed" still means "every value of
the domain" - and may run the now fully concrete remainder with tracing switched off (`untraced`),
which makes a path cost what the real code costs.  Anything still symbolic must NOT be passed to
`untraced`.
"""


def conc_int(k, lo, hi):
    """A plain int equal to symbolic k, for lo <= k <= hi (one path per value)."""
    for v in range(lo, hi + 1):
        if k == v:
            return v
    return lo


def conc_bool(b):
    return True if b else False


def conc_str(s, alphabet):
    """A plain str equal to symbolic s over the given alphabet (one path per string)."""
    out = ""
    for c in s:
        for a in alphabet:
            if c == a:
                out += a
                break
    return out


def untraced(fn, *args):
    """Run fn(*args) with the symbolic tracer off (all args must already be concrete)."""
    try:
        from crosshair.tracers import NoTracing, is_tracing
    except ImportError:      # plain replay environment
        return fn(*args)
    if is_tracing():
        with NoTracing():
            return fn(*args)
    return fn(*args)


def isolated(fn, *args):
    """Run fn(*args) in a forked child so that process-wide state it touches (class-level caches, singletons) cannot
    leak from one explored path into the next: every path starts from the same process image, and a counterexample
    replays in a fresh process.  All args must be concrete.  Exceptions are re-raised in the parent as RuntimeError."""
    import os
    import pickle

    def run():
        r, w = os.pipe()
        pid = os.fork()
        if pid == 0:
            try:
                os.close(r)
                try:
                    payload = ("ok", fn(*args))
                except BaseException as e:  # noqa - report everything to the parent
                    payload = ("exc", "%s: %s" % (type(e).__name__, e))
                with os.fdopen(w, "wb") as f:
                    pickle.dump(payload, f)
            finally:
                os._exit(0)
        os.close(w)
        with os.fdopen(r, "rb") as f:
            data = f.read()
        os.waitpid(pid, 0)
        kind, value = pickle.loads(data) if data else ("exc", "child died")
        if kind == "exc":
            raise RuntimeError("in isolated child: " + value)
        return value

    return untraced(run)


class DeadlineExceeded(BaseException):
    """Raised inside a case that did not finish within its wall-clock allowance (non-termination, deadlock): the library cannot swallow it."""


class deadline(object):
    """`with deadline(5): ...` - turns a hang of the code under test into an exception the harness can report (main thread only)."""

    def __init__(self, seconds):
        self.seconds = seconds

    def _fire(self, signum, frame):
        raise DeadlineExceeded("no result within %s s" % self.seconds)

    def __enter__(self):
        import signal
        self._old = signal.signal(signal.SIGALRM, self._fire)
        signal.setitimer(signal.ITIMER_REAL, self.seconds)
        return self

    def __exit__(self, *exc):
        import signal
        signal.setitimer(signal.ITIMER_REAL, 0)
        signal.signal(signal.SIGALRM, self._old)
        return False

#!/bin/bash
# usage: run_benign.sh [id ...]  - applies each BEHAVIOUR-PRESERVING refactoring under /verif/benign/<ID>_r/ in a scratch worktree of /repo and runs
# the property's quick check there: a correct check stays silent (exit 0).  Exit 1 = false alarm, exit 2 = harness error.  Results: benign/results.json
ROOT=$(dirname "$(dirname "$(readlink -f "$0")")")
W=/tmp/benignrun.$$
git -C /repo worktree add -q --detach $W HEAD || exit 3
trap 'git -C /repo worktree remove --force $W' EXIT
IDS="$@"; [ -z "$IDS" ] && IDS=$(ls $ROOT/benign | grep -E '^C[0-9]+_r$')
for s in $IDS; do
  prop=${s%_*}
  git -C $W checkout -q -- .
  if ! git -C $W apply $ROOT/benign/$s/patch.diff 2>/dev/null; then echo "$s PATCH-DOES-NOT-APPLY"; continue; fi
  t0=$(date +%s)
  (cd $ROOT && VERIF_REPO=$W timeout 1800 ./check $prop quick) > /tmp/benignrun.$$.log 2>&1; rc=$?
  t1=$(date +%s)
  line=$(grep -E "^$prop quick:" /tmp/benignrun.$$.log | cut -c1-200)
  first=$(grep -m1 -E 'violation in|ENGINE-ERROR' /tmp/benignrun.$$.log | cut -c1-300)
  echo "$s rc=$rc secs=$((t1-t0)) :: $line :: $first"
  RES=$ROOT/benign/results.json /verif/.venv/bin/python - "$s" "$rc" "$((t1-t0))" "$line" "$first" <<'PY'
import json, sys, os
p=os.environ['RES']
d=json.load(open(p)) if os.path.exists(p) else {}
s, rc, secs, line, first = sys.argv[1:6]
d[s]={"exit_code": int(rc), "seconds": int(secs), "summary": line, "first_report": first, "silent": int(rc)==0}
json.dump(d, open(p,'w'), indent=1, sort_keys=True)
PY
done
rm -f /tmp/benignrun.$$.log

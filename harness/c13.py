"""C13 - help pages are complete, respect hiding, fit the terminal and never fail.

E1 (CrossHair; finite domains split by the solver, then the real code untraced - help rendering goes through
`re`/textwrap on concrete text): one application skeleton whose elements carry symbolic attribute choices
(hidden / disabled commands, descriptions absent / short / long, value modes, defaults, multi-valued), symbolic
terminal width from a list; pages are rendered directly (ApplicationHelp / CommandHelp) and through runs of
`help <path>` and `<path> --help`.  A separate arithmetic contract keeps the width symbolic (any int) for
Paragraph / LabeledParagraph.
"""
from clikit.api.args.format.argument import Argument
from clikit.api.args.format.option import Option
from clikit.args.argv_args import ArgvArgs
from clikit.config.default_application_config import DefaultApplicationConfig
from clikit.console_application import ConsoleApplication
from clikit.handler.callback_handler import CallbackHandler
from clikit.io.buffered_io import BufferedIO
from clikit.io.input_stream.string_input_stream import StringInputStream
from clikit.io.output_stream.buffered_output_stream import BufferedOutputStream
from clikit.ui.components.labeled_paragraph import LabeledParagraph
from clikit.ui.components.paragraph import Paragraph
from clikit.ui.help.application_help import ApplicationHelp
from clikit.ui.help.command_help import CommandHelp
from clikit.ui.rectangle import Rectangle

from vf.sym import conc_bool, conc_int, untraced

PROPERTY = "C13"
FUNCTIONS = ["ApplicationHelp.render/_render_help", "CommandHelp.render/_render_help/_render_usage/_render_sub_command", "AbstractHelp._render_argument/_render_option/_render_synopsis",
             "LabeledParagraph.render", "Paragraph.render", "BlockLayout", "LabelAlignment", "HelpTextHandler.handle", "HelpResolver"]
PART = {}
EXTRA_BOUNDS = 'also: pages_inherited per width x indentation {0,2,8}: a sub-command with inherited parameters only, a sub-command named help, a command three levels deep below option-less parents, a display name + version longer than the terminal, both help routes.'
BOUNDS = {"quick": "one application (3 top-level commands, one with 2 sub-commands, options on parent and child, 2 arguments); symbolic: hidden/disabled bits of 4 commands, description kind (none/short/long/with an unbreakable 70-character token) of 4 elements, free-text descriptions and help texts, "
                   "value mode and default of 2 options, multi-valued argument; terminal widths {40, 64, 120}; pages: application, parent command, sub-command; both help routes",
          "thorough": "10 widths in 40..200, 6 parent description/value-mode combinations, 4 hidden/disabled patterns"}
OUTSIDE = ["command trees other than the skeleton", "descriptions with style tags or several paragraphs", "ANSI decorated pages (plain pages only; decoration is C11)"]
STUBS = ["terminal width passed through IO.set_terminal_dimensions / the COLUMNS-independent Rectangle of the run's IO factory"]
ASSUMPTIONS = ["'a terminal at least as wide as the longest label plus a margin': widths >= 40 for labels of <= 22 characters",
               "a page 'lists' an element when its display label occurs in the text: '<name>' for arguments, '-s' and '--long' for options, the name for commands"]

LONG = "This sentence is rather long so that it has to be wrapped on narrow terminals, more than once on the narrowest of them."
URL = "See https://example.invalid/" + "x" * 44 + " for details"        # a token longer than the text width of a 40-column page
DESCS = [None, "Short text", LONG, URL]
MODES = [Option.NO_VALUE, Option.REQUIRED_VALUE, Option.OPTIONAL_VALUE, Option.REQUIRED_VALUE | Option.MULTI_VALUED]


LONG_NAME = ("My Quite Long Application Name For Rather Narrow Terminals", "10.20.30-beta.4+build.2026")


def build(bits, width, long_name=False):
    (sub1_hidden, sub2_disabled, beta_hidden, gamma_disabled, d_alpha, d_opt, d_arg, d_par, mode_opt, opt_default, mode_par, arg_multi, arg_default, long_pref) = bits
    cfg = DefaultApplicationConfig("app", LONG_NAME[1] if long_name else "1.0")
    if long_name:
        cfg.set_display_name(LONG_NAME[0])       # name + version do not fit on one line of a narrow terminal
    cfg.set_catch_exceptions(False)
    cfg.set_terminate_after_run(False)
    calls = []
    h = CallbackHandler(lambda args, io: calls.append(1) or 0)

    def io_factory(app, args, input_stream=None, output_stream=None, error_stream=None, _orig=cfg.io_factory):
        io = _orig(app, args, input_stream, output_stream, error_stream)
        io.set_terminal_dimensions(Rectangle(width, 30))
        return io
    cfg.set_io_factory(io_factory)

    alpha = cfg.create_command("alpha")
    if DESCS[d_alpha] is not None:
        alpha.set_description(DESCS[d_alpha])
    alpha.add_alias("al")
    alpha.set_handler(h)
    pflags = MODES[mode_par] | (Option.PREFER_LONG_NAME if long_pref else 0)
    alpha.add_option("par", "p", pflags, DESCS[d_par], (["pd"] if mode_par == 3 else "pd") if (mode_par != 0 and opt_default) else None)
    alpha.add_argument("first", Argument.REQUIRED, DESCS[d_arg])
    sub1 = alpha.create_sub_command("sub1")
    sub1.set_description(DESCS[d_alpha] or "Sub one")          # shown as free text on the parent's page
    sub1.set_help(URL if d_alpha == 3 else "Help text of sub1")   # DESCRIPTION section of the sub-command's own page
    sub1.set_handler(h)
    if sub1_hidden:
        sub1.hide()
    oflags = MODES[mode_opt]
    sub1.add_option("opt", "o", oflags, DESCS[d_opt], (["dv"] if mode_opt == 3 else "dv") if (mode_opt != 0 and opt_default) else None)
    sub1.add_option("long-only", None, Option.NO_VALUE, "Only a long name")
    aflags = Argument.OPTIONAL | (Argument.MULTI_VALUED if arg_multi else 0)
    sub1.add_argument("rest", aflags, DESCS[d_arg], (["ad"] if arg_multi else "ad") if arg_default else None)
    sub2 = alpha.create_sub_command("sub2")
    sub2.set_handler(h)
    if sub2_disabled:
        sub2.disable()
    hsub = alpha.create_sub_command("help")            # a sub-command that happens to be called like the help command
    hsub.set_description("Explains alpha")
    hsub.add_option("topic", "t", Option.REQUIRED_VALUE, "Topic")
    hsub.set_handler(h)
    beta = cfg.create_command("beta")
    beta.set_handler(h)
    if beta_hidden:
        beta.hide()
    gamma = cfg.create_command("gamma")
    gamma.set_description("Gamma command")
    gamma.set_handler(h)
    if gamma_disabled:
        gamma.disable()
    g2 = gamma.create_sub_command("g2")                 # a chain of commands that define no option of their own
    g2.set_handler(h)
    g3 = g2.create_sub_command("g3")
    g3.set_description("Deep one")
    g3.set_handler(h)
    return ConsoleApplication(cfg), calls


def _render(component, width, indentation=0):
    io = BufferedIO()
    io.set_terminal_dimensions(Rectangle(width, 30))
    if indentation:
        component.render(io, indentation)
    else:
        component.render(io)
    return io.fetch_output()


def _run(app, tokens):
    out, err = BufferedOutputStream(), BufferedOutputStream()
    status = app.run(ArgvArgs(["app"] + tokens), StringInputStream(""), out, err)
    return status, out.fetch(), err.fetch()


def _flat(text):
    import re
    return re.sub(r"\s+", " ", text)


def _fits(text, width):
    return all(len(l) <= width for l in text.split("\n"))


def _help_case(bits, width):
    (sub1_hidden, sub2_disabled, beta_hidden, gamma_disabled, d_alpha, d_opt, d_arg, d_par, mode_opt, opt_default, mode_par, arg_multi, arg_default, long_pref) = bits
    app, calls = build(bits, width)
    # ---- application page
    page = _render(ApplicationHelp(app), width)
    if not _fits(page, width):
        return False
    listing = page.split("AVAILABLE COMMANDS")[1] if "AVAILABLE COMMANDS" in page else ""
    if "alpha" not in listing or "help" not in listing:
        return False
    if ("beta" in listing) == beta_hidden:
        return False
    if ("gamma" in listing) == gamma_disabled:
        return False
    for name in ("--help", "-h", "--quiet", "-q", "--verbose", "-v", "--version", "-V", "--ansi", "--no-ansi", "--no-interaction", "-n"):
        if name not in page:
            return False
    # ---- parent command page
    alpha = app.get_command("alpha")
    page = _render(CommandHelp(alpha), width)
    if not _fits(page, width):
        return False
    raw_page, page = page, _flat(page)
    for label in ("<first>", "--par", "-p", "--help", "-h", "--no-interaction", "al"):
        if label not in page:
            return False
    if ("sub1" in page) == sub1_hidden:
        return False                     # a hidden sub-command is not listed, a visible one is (COMMANDS section and usage)
    if ("sub2" in page) == sub2_disabled:
        return False
    if long_pref and "--par (-p)" not in page:
        return False
    if not long_pref and "-p (--par)" not in page:
        return False
    if mode_par != 0 and opt_default and "pd" not in page:
        return False
    # both routes print the same page, status 0, no handler
    s1, o1, e1 = _run(app, ["help", "alpha"])
    s2, o2, e2 = _run(app, ["alpha", "--help"])
    s3, o3, e3 = _run(app, ["alpha", "-h"])
    if (s1, s2, s3) != (0, 0, 0) or o1 != o2 or o1 != o3 or o1 != raw_page or calls:
        return False
    # ---- sub-command page (own and inherited parameters)
    sub1 = alpha.get_sub_command("sub1")
    page = _render(CommandHelp(sub1), width)
    if not _fits(page, width):
        return False
    raw_page, page = page, _flat(page)
    for label in ("<first>", "<rest", "--opt", "-o", "--long-only", "--par", "-p", "--help", "-h", "--quiet", "--no-ansi"):
        if label not in page:
            return False
    if mode_opt != 0 and opt_default and "dv" not in page:
        return False
    if arg_default and "ad" not in page:
        return False
    if mode_opt == 3 and "multiple values allowed" not in page:
        return False
    for d, present in ((d_opt, True), (d_arg, True), (d_par, True)):
        if DESCS[d] is not None and DESCS[d].split()[0] not in page:
            return False
    s1, o1, e1 = _run(app, ["help", "alpha", "sub1"])
    s2, o2, e2 = _run(app, ["alpha", "sub1", "--help"])
    if (s1, s2) != (0, 0) or o1 != o2 or o1 != raw_page or calls:
        return False
    # the application page is also what plain `help` prints
    s0, o0, e0 = _run(app, ["help"])
    return s0 == 0 and o0 == _render(ApplicationHelp(app), width) and not calls


def _inherited_case(bits, width, ind=0):
    (sub1_hidden, sub2_disabled, beta_hidden, gamma_disabled, d_alpha, d_opt, d_arg, d_par, mode_opt, opt_default, mode_par, arg_multi, arg_default, long_pref) = bits
    app, calls = build(bits, width, long_name=True)
    alpha = app.get_command("alpha")
    page = _render(ApplicationHelp(app), width)
    if not _fits(page, width) or any(w not in _flat(page) for w in LONG_NAME[0].split() + [LONG_NAME[1]]):
        return False                 # the name/version line of the application page is wrapped like everything else
    s0, o0, e0 = _run(app, ["--version"])
    if s0 != 0 or any(w not in _flat(o0) for w in LONG_NAME[0].split() + [LONG_NAME[1]]):
        return False
    # ---- pages rendered with an indentation of their own still fit the terminal and list the same elements
    if ind:
        for comp in (ApplicationHelp(app), CommandHelp(alpha), CommandHelp(alpha.get_sub_command("sub1"))):
            page = _render(comp, width, ind)
            if not _fits(page, width) or _flat(page) != _flat(_render(comp, width)) and any(w not in _flat(page) for w in ("--help", "--quiet")):
                return False
    # ---- a command three levels deep whose ancestors define no options: the global options are inherited all the same
    g3 = app.get_command("gamma").get_sub_command("g2").get_sub_command("g3")
    raw_page = _render(CommandHelp(g3), width)
    page = _flat(raw_page)
    for label in ("--help", "-h", "--quiet", "-q", "--verbose", "--version", "--ansi", "--no-ansi", "--no-interaction", "-n"):
        if label not in page:
            return False
    s1, o1, e1 = _run(app, ["help", "gamma", "g2", "g3"])
    s2, o2, e2 = _run(app, ["gamma", "g2", "g3", "--help"])
    if (s1, s2) != (0, 0) or o1 != raw_page or o2 != raw_page or calls:
        return False
    # ---- a sub-command without parameters of its own: everything it lists is inherited
    if not sub2_disabled:
        sub2 = alpha.get_sub_command("sub2")
        page = _render(CommandHelp(sub2), width)
        if not _fits(page, width):
            return False
        raw_page, page = page, _flat(page)
        for label in ("<first>", "--par", "-p", "--help", "-h", "--quiet"):
            if label not in page:
                return False
        if DESCS[d_arg] is not None and DESCS[d_arg].split()[0] not in page:
            return False
        s1, o1, e1 = _run(app, ["help", "alpha", "sub2"])
        s2, o2, e2 = _run(app, ["alpha", "sub2", "-h"])
        if (s1, s2) != (0, 0) or o1 != o2 or o1 != raw_page or calls:
            return False
    # ---- a sub-command named 'help'
    hsub = alpha.get_sub_command("help")
    raw_page = _render(CommandHelp(hsub), width)
    page = _flat(raw_page)
    if not _fits(raw_page, width) or "--topic" not in page or "-t" not in page or "<first>" not in page or "--par" not in page:
        return False
    s1, o1, e1 = _run(app, ["help", "alpha", "help"])
    s2, o2, e2 = _run(app, ["alpha", "help", "--help"])
    s3, o3, e3 = _run(app, ["alpha", "help", "-h"])
    if (s1, s2, s3) != (0, 0, 0) or o1 != raw_page or o2 != raw_page or o3 != raw_page or calls:
        return False
    return True


def pages_inherited(b1: bool, d_arg: int, d_par: int, mode_par: int, opt_default: bool, long_pref: bool, ind: int) -> bool:
    """
    pre: 0 <= d_arg <= 3 and 0 <= d_par <= 3 and 0 <= mode_par <= 3 and ind == PART["ind"]
    post: _
    """
    bits = (False, conc_bool(b1), False, False, 1, 1, conc_int(d_arg, 0, 3), conc_int(d_par, 0, 3), 1, conc_bool(opt_default), conc_int(mode_par, 0, 3), False, False, conc_bool(long_pref))
    return untraced(_inherited_case, bits, PART["width"], [0, 2, 8][conc_int(ind, 0, 2)])


def pages(b0: bool, b1: bool, b2: bool, b3: bool, d_alpha: int, d_opt: int, d_arg: int, d_par: int, mode_opt: int, opt_default: bool, mode_par: int,
          arg_multi: bool, arg_default: bool, long_pref: bool) -> bool:
    """
    pre: 0 <= d_alpha <= 3 and 0 <= d_opt <= 3 and 0 <= d_arg <= 3 and 0 <= d_par <= 3 and 0 <= mode_opt <= 3 and 0 <= mode_par <= 3
    pre: d_alpha == PART["d_alpha"] and d_par == PART["d_par"] and mode_par == PART["mode_par"]
    pre: PART.get("long_pref") is None or long_pref == PART["long_pref"]
    pre: PART.get("hide") is None or (b0 == PART["hide"][0] and b1 == PART["hide"][1] and b2 == PART["hide"][2] and b3 == PART["hide"][3])
    post: _
    """
    bits = (conc_bool(b0), conc_bool(b1), conc_bool(b2), conc_bool(b3), conc_int(d_alpha, 0, 3), conc_int(d_opt, 0, 3), conc_int(d_arg, 0, 3), conc_int(d_par, 0, 3),
            conc_int(mode_opt, 0, 3), conc_bool(opt_default), conc_int(mode_par, 0, 3), conc_bool(arg_multi), conc_bool(arg_default), conc_bool(long_pref))
    return untraced(_help_case, bits, PART["width"])


def pages_twin(b0: bool, b1: bool, b2: bool, b3: bool, d_alpha: int, d_opt: int, d_arg: int, d_par: int, mode_opt: int, opt_default: bool, mode_par: int,
               arg_multi: bool, arg_default: bool, long_pref: bool) -> bool:
    """
    pre: not b0 and not b1 and not b2 and not b3 and d_alpha == 1 and 0 <= d_opt <= 2 and d_arg == 2 and d_par == 2 and 0 <= mode_opt <= 3 and mode_par == 1
    pre: opt_default and arg_multi and arg_default and not long_pref
    post: _
    """
    bits = (False, False, False, False, 1, conc_int(d_opt, 0, 2), 2, 2, conc_int(mode_opt, 0, 3), True, 1, True, True, False)
    ok = untraced(_help_case, bits, 40)
    return not (ok and bits[5] == 2 and bits[8] == 3)      # twin: a long, wrapped, defaulted, multi-valued option really passes at width 40


def paragraph_width(width: int, indentation: int, nwords: int) -> bool:
    """
    pre: PART["lo"] <= width <= PART["hi"] and 0 <= indentation <= 2 and 0 <= nwords <= 2
    post: _
    """
    # Paragraph: text_width = W - 1 - indentation; every rendered line fits for ANY width (kept symbolic until the wrap)
    return untraced(_paragraph_case, conc_int(width, PART["lo"], PART["hi"]), [0, 4, 8][conc_int(indentation, 0, 2)], [1, 12, 40][conc_int(nwords, 0, 2)])


def _paragraph_case(width, indentation, nwords):
    io = BufferedIO()
    io.set_terminal_dimensions(Rectangle(width, 30))
    Paragraph(" ".join(["word%d" % i for i in range(nwords)])).render(io, indentation)
    LabeledParagraph("<c1>--label</c1> (-l)", " ".join(["w%d" % i for i in range(nwords)]) + " <b>(default: 1)</b>").render(io, indentation)
    out = io.fetch_output()
    return _fits(out, width) and "word0" in out and "--label" in out


def conditions(tier):
    quick = tier == "quick"
    t = 120 if quick else 1500
    conds = []
    widths = (40, 64, 120) if quick else (40, 44, 48, 56, 64, 80, 100, 120, 160, 200)
    combos = [(0, 2, 1), (3, 0, 3)] if quick else [(0, 2, 1), (3, 0, 3), (1, 1, 2), (2, 3, 0), (0, 0, 3), (1, 2, 2)]
    for w in widths:
        for d_alpha, d_par, mode_par in combos:
            for hide, lp in [(h_, l_) for h_ in ([(False, False, False, False), (True, True, True, True)] if quick else [(False, False, False, False), (True, True, True, True), (True, False, False, True), (False, True, True, False)]) for l_ in (False, True)]:
                conds.append({"name": "pages[w=%d,alpha=%d,par=%d/%d%s,%s]" % (w, d_alpha, d_par, mode_par, "" if hide is None else ",hide=" + "".join("1" if x else "0" for x in hide), "long" if lp else "short"), "fn": pages, "timeout": t,
                              "part": {"width": w, "d_alpha": d_alpha, "d_par": d_par, "mode_par": mode_par, "hide": hide, "long_pref": lp},
                              "bounds": "terminal width %d; parent description kind %d, parent option description kind %d / value mode %d; %s; symbolic: option/argument description kinds, child option value mode, defaults, multi-valued argument, name preference" % (
                                  w, d_alpha, d_par, mode_par, "hidden/disabled bits symbolic" if hide is None else "hidden sub1/disabled sub2/hidden beta/disabled gamma = %r" % (hide,))})
    for w, ind in [(w_, i_) for w_ in widths for i_ in range(3)]:
        conds.append({"name": "pages_inherited[w=%d,indent=%d]" % (w, [0, 2, 8][ind]), "fn": pages_inherited, "timeout": t, "part": {"width": w, "ind": ind},
                      "bounds": "terminal width %d; pages rendered with an indentation of %d; a command three levels deep below option-less parents; pages of a sub-command that has no parameters of its own (all inherited) and of a sub-command named 'help', directly and through both help routes; symbolic: description kinds of the inherited argument and option, its value mode, default, name preference, sub-command disabled" % (w, [0, 2, 8][ind])})
    for lo, hi in ([(30, 110)] if quick else [(30, 120), (121, 210), (211, 300)]):
        conds.append({"name": "paragraph_width[%d..%d]" % (lo, hi), "fn": paragraph_width, "timeout": t, "part": {"lo": lo, "hi": hi},
                      "bounds": "Paragraph and LabeledParagraph: every width in [%d,%d], indentation {0,4,8}, {1,12,40} words" % (lo, hi)})
    conds.append({"name": "pages_twin", "fn": pages_twin, "timeout": t, "expect": "refute", "part": {"width": 40, "d_alpha": 1, "d_par": 2, "mode_par": 1, "hide": None}, "bounds": "reachability twin"})
    return conds

"""Runtime repairs of crosshair-tool 0.0.110 (part of the trusted base, see DESIGN.md 2.1).

1. ShellMutableMap.copy() rebuilt `_len` from the inner map and ignored pending mutations, so
   `len(d.copy())` was stale for any dict() created under tracing.  clikit's `OrderedDict = dict`
   + `.copy()` + `len()` made CrossHair *confirm* a harness that has a concrete counterexample.
2. `sym & mask` realised the symbolic int unless mask+1 is a power of two.  clikit tests flag words
   with `& 2`, `& 4`, `& 2048` ...: thousands of enumerated paths instead of one symbolic branch.
   A concrete non-negative mask is decomposed bitwise with // and %, exact for all Python ints.
3. `sym | mask` likewise: a | m == a + m - (a & m) for a concrete non-negative mask.
4. `suspected_proxy_intolerance_exception` makes the engine silently SKIP every path that ends in a TypeError whose text contains
   "expected string or bytes-like object" or "__hash__ method should return an integer" - also when no symbolic value is involved
   and the TypeError is a real defect of the code under test (found with seeded change C02_f: `re.match` on an int default).
   The filter is narrowed to messages that actually name a symbolic proxy type.
All patches carry self-tests in harness/selftest.py which must be CONFIRMED.
"""
from crosshair import simplestructs as _ss
from crosshair.libimpl import builtinslib as _bl
from crosshair.tracers import NoTracing as _NT


def _copy(self):
    m = _ss.ShellMutableMap(self._inner)
    m._mutations = self._mutations.copy()
    m._len = self._len
    return m


_orig_and = _bl.SymbolicInt.__and__
_orig_rand = _bl.SymbolicInt.__rand__


def _bit_and(sym, mask):
    res = 0
    k = 0
    while mask >> k:
        if (mask >> k) & 1:
            res = res + ((sym // (1 << k)) % 2) * (1 << k)
        k += 1
    return res


def _and(self, other):
    with _NT():
        conc = type(other) is int and other >= 0
    if conc:
        return _bit_and(self, other)
    return _orig_and(self, other)


def _rand(self, other):
    with _NT():
        conc = type(other) is int and other >= 0
    if conc:
        return _bit_and(self, other)
    return _orig_rand(self, other)


_orig_or = _bl.SymbolicInt.__or__
_orig_ror = _bl.SymbolicInt.__ror__


def _or(self, other):
    with _NT():
        conc = type(other) is int and other >= 0
    if conc:
        return self + other - _bit_and(self, other)      # a | m == a + m - (a & m)
    return _orig_or(self, other)


def _ror(self, other):
    with _NT():
        conc = type(other) is int and other >= 0
    if conc:
        return self + other - _bit_and(self, other)
    return _orig_ror(self, other)


def _narrow_filter():
    from crosshair import core as _core
    orig = _core.suspected_proxy_intolerance_exception

    def narrowed(exc_value):
        return bool(orig(exc_value)) and "Symbolic" in str(exc_value)

    _core.suspected_proxy_intolerance_exception = narrowed
    try:
        from crosshair import behavior_compare as _bc
        _bc.suspected_proxy_intolerance_exception = narrowed
    except Exception:  # noqa - not needed for the checks
        pass


_applied = False


def apply():
    global _applied
    if _applied:
        return
    _ss.ShellMutableMap.copy = _copy
    _bl.SymbolicInt.__and__ = _and
    _bl.SymbolicInt.__rand__ = _rand
    _bl.SymbolicInt.__or__ = _or
    _bl.SymbolicInt.__ror__ = _ror
    _narrow_filter()
    _applied = True

"""Run ONE condition of one harness module in this process and print one JSON line.

usage: python -m vf.worker <harness module> <condition name> <per-condition seconds> <tier>

Engine E1 (crosshair): the condition is a contract function (`pre:`/`post:` docstring); it is
analysed with CrossHair's API and the verdict is mapped as in DESIGN.md 2.1.
Engine E2 (smt): the condition is a plain function `f(tier) -> dict` that builds the SMT
encoding from the repository's current source and returns its own verdict dictionary.
"""
import collections
import faulthandler
import json
import os
import re
import sys
import time
import traceback

sys.path.insert(0, os.path.dirname(os.path.dirname(os.path.abspath(__file__))))


def _parse_call(message, fn):
    """Extract the arguments of the counterexample call from a CrossHair message as a kwargs dict."""
    import inspect

    fname = fn.__name__
    m = re.search(r"when calling " + re.escape(fname) + r"\((.*)\)", message, re.S)
    if not m:
        return None
    body = m.group(1)
    # strip a trailing " (which returns ...)" / " (which raises ...)" suffix
    cands = [body]
    for mm in re.finditer(r"\) \(which ", body):
        cands.append(body[: mm.start()])
    params = list(inspect.signature(fn).parameters)
    for cand in reversed(cands):
        try:
            a, k = eval("_cap(" + cand + ")", {"__builtins__": {}, "_cap": lambda *a, **k: (a, k), "float": float})
        except Exception:
            continue
        out = dict(zip(params, a))
        out.update(k)
        return out
    return None


def run_crosshair(fn, timeout, per_path=None):
    from vf import chpatch

    chpatch.apply()
    from crosshair.core_and_libs import analyze_function, run_checkables, MessageType
    from crosshair.options import AnalysisOptionSet

    stats = collections.Counter()
    kw = dict(per_condition_timeout=timeout, report_all=True, stats=stats)
    if per_path:
        kw["per_path_timeout"] = per_path
    opts = AnalysisOptionSet(**kw)
    t0 = time.time()
    c0 = time.process_time()
    checkables = analyze_function(fn, opts)
    try:
        msgs = run_checkables(checkables)
    except Exception as e:  # CrossHairInternal and friends: an engine limitation, not a property verdict
        return {"engine": "crosshair", "verdict": "unknown", "paths": int(stats.get("num_paths", 0)),
                "wall_s": round(time.time() - t0, 2), "solver_s": round(time.process_time() - c0, 2), "args": None,
                "message": "engine internal error after %d paths (inconclusive): %s: %s" % (stats.get("num_paths", 0), type(e).__name__, str(e)[:300])}
    out = {
        "engine": "crosshair",
        "paths": int(stats.get("num_paths", 0)),
        "wall_s": round(time.time() - t0, 2),
        "solver_s": round(time.process_time() - c0, 2),
        "args": None,
        "message": "",
    }
    if not checkables:
        out["verdict"] = "error"
        out["message"] = "no contract found on function"
        return out
    verdict = "unknown"
    for m in msgs:
        st = m.state
        if st == MessageType.CONFIRMED:
            verdict = "confirmed"
        elif st == MessageType.CANNOT_CONFIRM:
            verdict = "unknown"
        elif st == MessageType.PRE_UNSAT:
            verdict = "pre_unsat"
            out["message"] = m.message
        elif st in (MessageType.POST_FAIL, MessageType.EXEC_ERR, MessageType.POST_ERR):
            verdict = "refuted"
            out["message"] = m.message[:2000]
            out["args"] = _parse_call(m.message, fn)
            break
        elif st in (MessageType.SYNTAX_ERR, MessageType.IMPORT_ERR):
            verdict = "error"
            out["message"] = m.message[:2000]
            break
    if not msgs:
        verdict = "unknown"
    out["verdict"] = verdict
    return out


def main():
    modname, cname, timeout, tier = sys.argv[1], sys.argv[2], float(sys.argv[3]), sys.argv[4]
    os.environ["VERIF_TIER"] = tier
    faulthandler.enable()
    import importlib

    mod = importlib.import_module(modname)
    cond = None
    for c in mod.conditions(tier):
        if c["name"] == cname:
            cond = c
    if cond is None:
        print(json.dumps({"cond": cname, "verdict": "error", "message": "no such condition"}))
        return
    if hasattr(mod, "PART"):
        mod.PART.clear()
        mod.PART.update(cond.get("part", {}))
    try:
        if cond.get("engine", "crosshair") == "crosshair":
            out = run_crosshair(cond["fn"], timeout, cond.get("per_path"))
        else:
            t0 = time.time()
            out = cond["fn"](tier)
            out.setdefault("engine", "smt")
            out.setdefault("wall_s", round(time.time() - t0, 2))
            out.setdefault("args", None)
            out.setdefault("message", "")
    except Exception as e:
        frames = traceback.extract_tb(e.__traceback__)
        if cond.get("engine") == "smt" and any(os.path.basename(f.filename) == "py2smt.py" for f in frames):
            # the translator met source it cannot encode (a construct outside its subset, a helper that moved): E2 does not decide this
            # obligation on the current tree - inconclusive, never an error and never a verdict (the E1 conditions of the property still run)
            out = {"verdict": "unknown", "engine": "smt", "args": None,
                   "message": "E2 cannot encode the current source (%s: %s) - not decided by this obligation" % (type(e).__name__, str(e)[:200])}
        else:
            out = {"verdict": "error", "message": traceback.format_exc()[-3000:], "args": None}
    out["cond"] = cname
    sys.stdout.write("\n@@RESULT@@" + json.dumps(out, default=repr) + "\n")
    sys.stdout.flush()


if __name__ == "__main__":
    main()

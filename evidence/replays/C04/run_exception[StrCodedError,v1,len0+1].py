#!/verif/.venv/bin/python
# Replays a counterexample on the real code in /repo/src (no solver involved).
import os, sys, json
sys.path[:0] = ['/verif', '/repo/src']
from vf.replay import replay
ARGS = json.loads('{"m1": "", "m2": "\\u00e9", "frag": 7}')
r = replay('harness.c04', 'run_exception[StrCodedError,v1,len0+1]', ARGS, 'quick')
print('REPRODUCED: ' + r if r else 'NOT-REPRODUCED')
sys.exit(1 if r else 0)

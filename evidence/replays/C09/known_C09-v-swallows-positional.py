#!/verif/.venv/bin/python
# Replays a counterexample on the real code in /repo/src (no solver involved).
import os, sys, json
sys.path[:0] = ['/verif', '/repo/src']
os.environ['VERIF_NO_EXCLUSIONS'] = '1'
from vf.replay import replay
ARGS = json.loads('{"q": false, "ansi": 0, "n": false, "hv": 0, "short": false, "pos": 0, "raises": false, "rotate": false}')
r = replay('harness.c09', 'known_C09-v-swallows-positional', ARGS, 'quick')
print('REPRODUCED: ' + r if r else 'NOT-REPRODUCED')
sys.exit(1 if r else 0)

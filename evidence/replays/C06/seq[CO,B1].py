#!/verif/.venv/bin/python
# Replays a counterexample on the real code in /repo/src (no solver involved).
import os, sys, json
sys.path[:0] = ['/verif', '/repo/src']
from vf.replay import replay
ARGS = json.loads('{"a1": 0, "a2": 2, "a3": 2, "b1": 2, "b2": 1, "b3": 0, "c1": 0, "c2": 0, "c3": 0}')
r = replay('harness.c06', 'seq[CO,B1]', ARGS, 'quick')
print('REPRODUCED: ' + r if r else 'NOT-REPRODUCED')
sys.exit(1 if r else 0)

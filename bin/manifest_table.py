NOTES = ("Solver-based checking of the real code only (CrossHair/z3 symbolic execution and own AST->SMT encodings regenerated from /repo on every run). "
         "Exit 0 = held on everything explored (inconclusive conditions are reported in the evidence, never as proofs); exit 1 = replayed violation; exit 2 = harness/engine error. "
         "Every run also re-proves the engine repairs (harness/selftest.py).")
_PENDING = "check not built yet in this round; will be claimed once its harness exists (design in DESIGN.md section 3)"
_TRUST = "Trusted: CrossHair 0.0.110 + z3 model of CPython for the executed subset with the runtime repairs in vf/chpatch.py (re-proved in every run); symbolic strings never reach `re` (finite domains are split first); bounds and alphabets as listed in the evidence; "
CHECKS = {
 "C01": dict(
    text="Generator-as-oracle contracts: a symbolic assignment and a symbolic spelling of it are turned into tokens, parsed by the real DefaultArgsParser and compared with the assignment through every accessor. Two families per (format skeleton, spelling style): STRUCTURE (which options, where, how many positionals, command names by name/alias/omitted, '--', leniency) and VALUES (option/positional/tail texts, ints, booleans, null). All paths closed per family within the stated bounds.",
    note=_TRUST + "8 format skeletons from harness/pfmt.py; cross terms between the two families are outside the claim.",
    technique="symbolic execution (CrossHair/z3), bounded; generator-as-oracle"),
 "C02": dict(
    text="For 8 format skeletons: every 1-2 token line over an adversarial alphabet and every 3-token line over a per-format literal menu is parsed strict and lenient under the solver: only the three documented exception classes escape, lenient raises no parse error, strict-ok implies identical lenient result; 7 single-fault mutations raise exactly the documented class.",
    note=_TRUST + "token sequences of length 4-6 are outside the claim.",
    technique="symbolic execution (CrossHair/z3), bounded"),
 "C04": dict(
    text="Command.handle closed for EVERY int result; whole ConsoleApplication.run (catching on) with symbolic handler results (ints, numeric strings, pinned floats/None/bools), 9 exception kinds (library/foreign/coded/chained/source-less/KeyboardInterrupt) x symbolic messages with tag fragments x verbosity x pre-handle listener behaviours: status in 0..255, 0 iff falsy, report printed, handler called exactly once, no other handler.",
    note=_TRUST + "a full error trace costs ~5 s per path, so message alphabets are small; no report is demanded for KeyboardInterrupt (the repository's own test requires silence).",
    technique="symbolic execution (CrossHair/z3), bounded"),
 "C05": dict(
    text="History form on one parser instance: parse A (may fail) then B, and A,B then C, lines drawn by symbolic indices from menus of state-relevant tokens, over same and different formats (incl. same names / different flags); outcome equals a fresh parser's. Non-mutation of argv list, raw args and format listings under symbolic tokens.",
    note=_TRUST + "histories of 4-6 parses are outside; the parser's carried state is what the previous parses leave, exercised by 2-3 parses.",
    technique="symbolic execution (CrossHair/z3), bounded histories"),
 "C07": dict(
    text="E2: _validate_flags/_validate_short_name/_add_default_flags of Option, CommandOption, Argument are translated from the current source to QF_BV; 'accept <=> documented predicate' and 'accepted => normalised consistently' are single unsat queries over every 16-bit flag word (translator validated on ~1600 concrete words per class). E1: whole constructors incl. defaults, names over an adversarial alphabet (incl. newline, non-ASCII) with/without dashes, conversions (every int text in range, all texts <= 3 chars).",
    note=_TRUST + "z3 for QF_BV; parse_float(repr(x)) only on pinned floats (concretised, not a solver claim).",
    technique="SMT (z3 QF_BV) over translated source + symbolic execution (CrossHair)", engine="E2 py2smt + E1 crosshair"),
 "C08": dict(
    text="Totality/termination for all strings up to the stated length over {a,space,tab,',\",backslash,-}; unquoted split law; quoting inverse for 1-2 (thorough 3) tokens with both quote styles and 4 separators; StringArgs vs ArgvArgs token/option-token equivalence. One condition per length split, all paths closed.",
    note=_TRUST + "lengths beyond the bounds are outside.",
    technique="symbolic execution (CrossHair/z3), bounded string lengths"),
 "C10": dict(
    text="For every writing entry point found by reflection on Output, SectionOutput, IO and BufferedIO (57 conditions), the solver closes all paths for EVERY Python int or None as flag word, the four verbosities and both quiet states: text reaches the stream iff not quiet and verbosity >= lowest requested level; monotonicity in the verbosity as a second contract.",
    note=_TRUST + "message fixed to one untagged character; BufferedOutputStream only.",
    technique="symbolic execution (CrossHair/z3), unbounded integer flags"),
 "C12": dict(
    text="Operation skeletons (registrations on two events interleaved with dispatch rounds over three events + all queries) with every priority in {-1,0,1} and every stop bit symbolic; oracle = stable sort by (-priority, registration index) cut at the first stopper; all combinations closed by the solver (finite domain: priorities are dict keys).",
    note=_TRUST + "priorities outside {-1,0,1} and random length-40 histories are outside.",
    technique="symbolic execution (CrossHair/z3), finite domain closed"),
}
NOT_APPLICABLE = {p: _PENDING for p in ["C03","C06","C09","C11","C13","C14","C15","C16","C17","C18","C19","C20"]}

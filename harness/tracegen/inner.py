# generated source used by harness/c20.py - line positions matter, do not reformat
def first(msg): raise ValueError(msg)                      # line 2: failing line near the top of the file
DOC = """A multi-line string above the snippet windows.
It contains a form feed  and a line separator   which are NOT line breaks for Python.
End of the string."""
def markup(msg):
    x = "<b></info> \\< </> <error>"  # </comment> 1 < 2
    y = 'café → naïve'
    z = [x,	y]	# tabs inside this line
    raise KeyError(msg)
def multi(msg):
    value = dict(
        a=1,
        b=2,
    )
    raise RuntimeError(
        msg
    )
def deep(n, msg):
    if n <= 0:
        raise IndexError(msg)
    return deep(n - 1, msg)
class Custom(Exception):
    def __str__(self):
        return "custom<" + self.args[0] + ">"
def custom(msg):
    raise Custom(msg)
def chained(msg, depth):
    try:
        first("inner " + msg)
    except ValueError as e:
        if depth > 1:
            try:
                raise KeyError("middle") from e
            except KeyError as e2:
                raise RuntimeError(msg) from e2
        raise RuntimeError(msg) from e
def last(msg): raise ValueError(msg)
"""Known findings: genuine defects of the repository that are recorded rather than repaired.

The file /verif/known_findings.json is committed and never written at run time.  A harness asks
`kf.excluded("<finding id>", predicate_value)`: when the finding is listed as open, inputs inside its
region (the predicate) are skipped by the contract functions, so that the solver keeps looking for
*other* violations of the same property.  The orchestrator replays each open finding's concrete
witness on the real code and prints a KNOWN-FINDING line when it still reproduces.
"""
import json
import os

PATH = os.path.join(os.path.dirname(os.path.dirname(os.path.abspath(__file__))), "known_findings.json")
ACTIVE = os.environ.get("VERIF_NO_EXCLUSIONS", "") != "1"

try:
    with open(PATH) as _f:
        DATA = json.load(_f)
except FileNotFoundError:
    DATA = {"findings": []}

OPEN = {f["id"]: f for f in DATA.get("findings", []) if f.get("status") == "open"}


def is_open(fid):
    return ACTIVE and fid in OPEN


def excluded(fid, in_region):
    """True when the input lies in the region of an open known finding (skip it)."""
    if fid in OPEN and ACTIVE:
        return bool(in_region)
    return False


def open_for(prop):
    return [f for f in OPEN.values() if f["property"] == prop]


def fixed_for(prop):
    return [f for f in DATA.get("findings", []) if f.get("status") == "fixed" and f["property"] == prop]

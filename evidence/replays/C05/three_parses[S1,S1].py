#!/verif/.venv/bin/python
# Replays a counterexample on the real code in /repo/src (no solver involved).
import os, sys, json
sys.path[:0] = ['/verif', '/repo/src']
from vf.replay import replay
ARGS = json.loads('{"a": 1, "b": 2, "c1": 1, "c2": 6, "lenient": false}')
r = replay('harness.c05', 'three_parses[S1,S1]', ARGS, 'quick')
print('REPRODUCED: ' + r if r else 'NOT-REPRODUCED')
sys.exit(1 if r else 0)

#!/bin/sh
# Idempotent, offline: overlay venv on /venv (the repository's own environment) with
# crosshair-tool + cvc5 + z3-solver from the local wheelhouse. Nothing is fetched.
set -e
V=/verif/.venv
if [ -x "$V/bin/python" ] && "$V/bin/python" -c "import crosshair, z3, cvc5, pastel" >/dev/null 2>&1; then
  exit 0
fi
rm -rf "$V"
/venv/bin/python -m venv "$V"
SP=$("$V/bin/python" -c "import sysconfig; print(sysconfig.get_paths()['purelib'])")
printf "import site; site.addsitedir('/venv/lib/python3.12/site-packages')\n" > "$SP/_verif_overlay.pth"
PIP_NO_INDEX=1 "$V/bin/python" -m pip install -q --no-index --find-links /opt/veriftools/wheels crosshair-tool cvc5 z3-solver >/dev/null
"$V/bin/python" -c "import crosshair, z3, cvc5, pastel; print('verif env ok: crosshair', crosshair.__version__ if hasattr(crosshair,'__version__') else '0.0.110', 'z3', z3.get_version_string())"

"""C06 - an args format can never be built into an inconsistent state.

E1 (CrossHair), lock-step against a reference model written from the property statement.
Concrete: the kinds of the operations (skeleton) and the stack of base formats.  Symbolic: which element
of a small colliding pool every operation uses (long name, short name, alias, argument name and kind).
After every operation: rejected => every query of the builder answers as before; accepted => the model's
invariants hold; the builder, the built format (`builder.format`), a format constructed directly from the
accepted elements and the model answer every query identically.
"""
from clikit.api.args.exceptions import CannotAddArgumentException, CannotAddOptionException, NoSuchArgumentException, NoSuchOptionException
from clikit.api.args.format.args_format import ArgsFormat
from clikit.api.args.format.args_format_builder import ArgsFormatBuilder
from clikit.api.args.format.argument import Argument
from clikit.api.args.format.command_name import CommandName
from clikit.api.args.format.command_option import CommandOption
from clikit.api.args.format.option import Option

from vf.sym import conc_int, untraced

PROPERTY = "C06"
FUNCTIONS = ["ArgsFormatBuilder.add_*/set_*/has_*/get_*/format", "ArgsFormat.__init__/_create_builder_for_elements/has_*/get_*", "CommandOption aliases"]
PART = {}
EXTRA_BOUNDS = 'also: batch calls add_arguments(a, b) / set_arguments(a, b) (skeleton kinds A2, SA2).'
BOUNDS = {"quick": "operation skeletons of length 1-3 over {add_option, add_command_option, add_argument, add_command_name, set_options, set_command_options, set_arguments}; elements from a colliding pool (3 long names, 2 short names or none, 4 alias choices, 3 argument names x required/optional/optional-multi/required-multi; set_*() with one element or none); 0, 1 and 2 stacked base formats",
          "thorough": "skeletons up to length 4-5 (partitioned by the first element)"}
OUTSIDE = ["sequences of 6-7 operations", "set_* with more than one element", "two different pools of base formats beyond the fixed three-level stack"]
STUBS = []
ASSUMPTIONS = ["listing order: arguments base-first (positional meaning); options / command options: the order the builder itself reports (builder and built format must agree, the model is compared as a set)",
               "a failing set_* (replacement) may leave the builder emptied: the statement promises an unchanged builder for a rejected *addition* only"]

LONGS = ["aa", "bb", "cc"]
SHORTS = ["a", "b", None]
ALIASES = [[], ["bb"], ["b"], ["cc", "a"]]
ANAMES = ["x", "y", "z"]
AKINDS = [Argument.REQUIRED, Argument.OPTIONAL, Argument.OPTIONAL | Argument.MULTI_VALUED, Argument.REQUIRED | Argument.MULTI_VALUED]

# element cache: the same objects are reused so that identity comparisons between builder and format are meaningful
_OPT = {(l, s): Option(l, s) for l in LONGS for s in SHORTS}
_COPT = {(l, s, k): CommandOption(l, s, ALIASES[k]) for l in LONGS for s in SHORTS for k in range(4)}
_ARG = {(n, k): Argument(n, AKINDS[k]) for n in ANAMES for k in range(4)}
_CN = [CommandName("run", ["r"]), CommandName("go")]

BASE1 = ArgsFormat([Option("cc", "b"), Argument("x", Argument.REQUIRED), CommandName("top")])
BASE2 = ArgsFormat([CommandOption("bb", None, ["zz"]), Argument("y", Argument.OPTIONAL)], BASE1)
BASES = {"none": None, "B1": BASE1, "B2": BASE2}


class Model:
    """Reference model of one format level on top of an (already consistent) base model."""

    def __init__(self, base=None):
        self.base = base
        self.names, self.opts, self.copts, self.args = [], [], [], []

    def copy(self):
        m = Model(self.base)
        m.names, m.opts, m.copts, m.args = list(self.names), list(self.opts), list(self.copts), list(self.args)
        return m

    # every name under which an option / command option is known, own level first
    def opt_keys(self, inc=True):
        ks = []
        for o in self.opts:
            ks += [o.long_name] + ([o.short_name] if o.short_name else [])
        return ks + (self.base.opt_keys() if inc and self.base else [])

    def copt_keys(self, inc=True):
        ks = []
        for o in self.copts:
            mine = []
            for k in [o.long_name] + ([o.short_name] if o.short_name else []) + list(o.long_aliases) + list(o.short_aliases):
                if k not in mine:       # an alias equal to the option's own name still identifies that one option
                    mine.append(k)
            ks += mine
        return ks + (self.base.copt_keys() if inc and self.base else [])

    def all_args(self, inc=True):
        return (self.base.all_args() if inc and self.base else []) + self.args

    def can_add_option(self, o):
        taken = self.opt_keys() + self.copt_keys()
        return o.long_name not in taken and (o.short_name is None or o.short_name not in taken)

    def can_add_copt(self, o):
        taken = self.opt_keys() + self.copt_keys()
        mine = [o.long_name] + ([o.short_name] if o.short_name else []) + list(o.long_aliases) + list(o.short_aliases)
        return all(k not in taken for k in mine)

    def can_add_arg(self, a):
        cur = self.all_args()
        if any(x.name == a.name for x in cur):
            return False
        if any(x.is_multi_valued() for x in cur):
            return False
        if a.is_required() and any(x.is_optional() for x in cur):
            return False
        return True

    def invariants(self):
        keys = self.opt_keys() + self.copt_keys()
        if len(keys) != len(set(keys)):
            return False
        args = self.all_args()
        multis = [i for i, a in enumerate(args) if a.is_multi_valued()]
        if len(multis) > 1 or (multis and multis[0] != len(args) - 1):
            return False
        seen_opt = False
        for a in args:
            if a.is_optional():
                seen_opt = True
            elif seen_opt:
                return False
        return True

    def lookup_opt(self, key, inc=True):
        for o in self.opts:
            if key == o.long_name or (o.short_name and key == o.short_name):
                return o
        return self.base.lookup_opt(key) if inc and self.base else None

    def lookup_copt(self, key, inc=True):
        for o in self.copts:
            if key in [o.long_name] + ([o.short_name] if o.short_name else []) + list(o.long_aliases) + list(o.short_aliases):
                return o
        return self.base.lookup_copt(key) if inc and self.base else None

    def all_opts(self, inc=True):
        return self.opts + (self.base.all_opts() if inc and self.base else [])

    def all_copts(self, inc=True):
        return self.copts + (self.base.all_copts() if inc and self.base else [])

    def all_names(self, inc=True):
        return (self.base.all_names() if inc and self.base else []) + self.names


M_BASE1 = Model()
M_BASE1.opts = [BASE1.get_option("cc")]
M_BASE1.args = [BASE1.get_argument("x")]
M_BASE1.names = BASE1.get_command_names()
M_BASE2 = Model(M_BASE1)
M_BASE2.copts = [BASE2.get_command_option("bb", False)]
M_BASE2.args = [BASE2.get_argument("y", False)]
MBASES = {"none": None, "B1": M_BASE1, "B2": M_BASE2}

PROBE_KEYS = ["aa", "bb", "cc", "a", "b", "c", "zz", "dd"]
PROBE_ARGS = ["x", "y", "z", "w", 0, 1, 2, 3]


def _q(obj, inc):
    """Everything the public query API says about a builder or a format (names instead of objects where useful)."""
    out = []
    for k in PROBE_KEYS:
        out.append(("has_option", k, obj.has_option(k, inc)))
        out.append(("has_command_option", k, obj.has_command_option(k, inc)))
        try:
            out.append(("get_option", k, id(obj.get_option(k, inc))))
        except NoSuchOptionException:
            out.append(("get_option", k, None))
        try:
            out.append(("get_command_option", k, id(obj.get_command_option(k, inc))))
        except NoSuchOptionException:
            out.append(("get_command_option", k, None))
    for k in PROBE_ARGS:
        out.append(("has_argument", k, obj.has_argument(k, inc)))
        try:
            out.append(("get_argument", k, id(obj.get_argument(k, inc))))
        except NoSuchArgumentException:
            out.append(("get_argument", k, None))
    out.append(("arguments", [id(a) for a in obj.get_arguments(inc).values()], list(obj.get_arguments(inc))))
    out.append(("options", [id(o) for o in obj.get_options(inc).values()], list(obj.get_options(inc))))
    out.append(("command_options", [id(o) for o in obj.get_command_options(inc)]))
    out.append(("command_names", [id(c) for c in obj.get_command_names(inc)]))
    out.append(("flags", obj.has_arguments(inc), obj.has_options(inc), obj.has_command_options(inc), obj.has_command_names(inc),
                obj.has_multi_valued_argument(inc), obj.has_optional_argument(inc), obj.has_required_argument(inc)))
    return out


def _qm(m, inc):
    """The same answers computed from the model."""
    out = []
    for k in PROBE_KEYS:
        o, c = m.lookup_opt(k, inc), m.lookup_copt(k, inc)
        out.append(("has_option", k, o is not None))
        out.append(("has_command_option", k, c is not None))
        out.append(("get_option", k, id(o) if o is not None else None))
        out.append(("get_command_option", k, id(c) if c is not None else None))
    args = m.all_args(inc)
    for k in PROBE_ARGS:
        if isinstance(k, int):
            a = args[k] if k < len(args) else None
        else:
            a = ([x for x in args if x.name == k] or [None])[0]
        out.append(("has_argument", k, a is not None))
        out.append(("get_argument", k, id(a) if a is not None else None))
    out.append(("arguments", [id(a) for a in args], [a.name for a in args]))
    out.append(("options", sorted(id(o) for o in m.all_opts(inc)), sorted(o.long_name for o in m.all_opts(inc))))
    out.append(("command_options", sorted(id(o) for o in m.all_copts(inc))))
    out.append(("command_names", [id(c) for c in m.all_names(inc)]))
    out.append(("flags", bool(args), bool(m.all_opts(inc)), bool(m.all_copts(inc)), bool(m.all_names(inc)),
                any(a.is_multi_valued() for a in args), any(a.is_optional() for a in args), any(a.is_required() for a in args)))
    return out


def _as_sets(q):
    out = []
    for item in q:
        if item[0] == "options":
            out.append(("options", sorted(item[1]), sorted(item[2])))
        elif item[0] == "command_options":
            out.append(("command_options", sorted(item[1])))
        else:
            out.append(item)
    return out


def _conc(k, n):
    for i in range(n):
        if k == i:
            return i
    return 0


def _run(skel, base_name, idx):
    base, mbase = BASES[base_name], MBASES[base_name]
    b = ArgsFormatBuilder(base)
    m = Model(mbase)
    elements = []                       # accepted elements in order, for direct construction
    only_adds = True
    for step, kind in enumerate(skel):
        i1, i2, i3 = _conc(idx[step][0], 3), _conc(idx[step][1], 4 if kind in ("A", "SA", "A2", "SA2") else 3), _conc(idx[step][2], 4)
        before = [_q(b, True), _q(b, False)]
        m2 = m.copy()
        if kind == "O":
            el = _OPT[(LONGS[i1], SHORTS[i2])]
            ok = m.can_add_option(el)
            call = lambda: b.add_option(el)
            if ok:
                m2.opts.append(el)
        elif kind == "C":
            el = _COPT[(LONGS[i1], SHORTS[i2], i3)]
            ok = m.can_add_copt(el)
            call = lambda: b.add_command_option(el)
            if ok:
                m2.copts.append(el)
        elif kind == "A":
            el = _ARG[(ANAMES[i1], i2)]
            ok = m.can_add_arg(el)
            call = lambda: b.add_argument(el)
            if ok:
                m2.args.append(el)
        elif kind in ("A2", "SA2"):     # a BATCH of two arguments in one call: the same rules as two single additions, in the given order
            el = _ARG[(ANAMES[i1], i2)]
            el2 = _ARG[(ANAMES[(i1 + 1) % 3], i3)]
            if kind == "SA2":
                m2.args = []
                only_adds = False
            ok = m2.can_add_arg(el)
            if ok:
                m2.args.append(el)
                ok = m2.can_add_arg(el2)
                if ok:
                    m2.args.append(el2)
                elif kind == "A2":
                    elements.append(el)         # the first argument of a batch whose second one is refused stays added
            call = (lambda: b.add_arguments(el, el2)) if kind == "A2" else (lambda: b.set_arguments(el, el2))
        elif kind == "N":
            el = _CN[i1 % 2]
            ok = True
            call = lambda: b.add_command_name(el)
            m2.names.append(el)
        elif kind == "SO":              # replacement of the own options by one option
            el = _OPT[(LONGS[i1], SHORTS[i2])]
            m2.opts = []
            ok = m2.can_add_option(el)
            call = lambda: b.set_options(el)
            only_adds = False
            if ok:
                m2.opts.append(el)
        elif kind == "SC":
            el = _COPT[(LONGS[i1], SHORTS[i2], i3)]
            m2.copts = []
            ok = m2.can_add_copt(el)
            call = lambda: b.set_command_options(el)
            only_adds = False
            if ok:
                m2.copts.append(el)
        elif kind in ("SO0", "SC0", "SA0", "SN0"):   # replacement by NOTHING: the own elements of that kind are dropped
            el = None
            ok = True
            only_adds = False
            if kind == "SO0":
                m2.opts = []
                call = lambda: b.set_options()
            elif kind == "SC0":
                m2.copts = []
                call = lambda: b.set_command_options()
            elif kind == "SA0":
                m2.args = []
                call = lambda: b.set_arguments()
            else:
                m2.names = []
                call = lambda: b.set_command_names()
        else:                           # "SA"
            el = _ARG[(ANAMES[i1], i2)]
            m2.args = []
            ok = m2.can_add_arg(el)
            call = lambda: b.set_arguments(el)
            only_adds = False
            if ok:
                m2.args.append(el)
        try:
            call()
            accepted = True
        except (CannotAddOptionException, CannotAddArgumentException):
            accepted = False
        if accepted != ok:
            return False
        if not accepted:
            if kind in ("O", "C", "A"):
                if [_q(b, True), _q(b, False)] != before:
                    return False       # a rejected addition leaves the builder unchanged
                continue
            m = m2                      # (a rejected batch / replacement: what was accepted before the offending element stays, as for single calls)
            if False:
                pass
            m = m2                      # a rejected replacement: the own elements of that kind are gone (see ASSUMPTIONS)
        else:
            m = m2
            if kind in ("O", "C", "A", "N"):
                elements.append(el)
            elif kind == "A2":
                elements.extend([el, el2])
        if not m.invariants():
            return False
        f = b.format
        for inc in (True, False):
            qb, qf, qm = _q(b, inc), _q(f, inc), _qm(m, inc)
            if qb != qf:
                return False           # the finished format answers every query exactly as the builder did
            if _as_sets(qb) != qm:
                return False           # ... and as the listed elements imply
    if only_adds:
        # constructing a format directly from the same elements enforces the same rules and answers alike
        d = ArgsFormat(list(elements), base)
        for inc in (True, False):
            if _as_sets(_q(d, inc)) != _qm(m, inc):
                return False
    return True


def seq(a1: int, a2: int, a3: int, b1: int, b2: int, b3: int, c1: int, c2: int, c3: int) -> bool:
    """
    pre: 0 <= a1 <= 2 and 0 <= a2 <= 3 and 0 <= a3 <= 3 and 0 <= b1 <= 2 and 0 <= b2 <= 3 and 0 <= b3 <= 3 and 0 <= c1 <= 2 and 0 <= c2 <= 3 and 0 <= c3 <= 3
    pre: _second_index_ok(PART["skel"], a2, b2, c2)
    pre: _fixed(PART["skel"], 0, a1, a2, a3) and _fixed(PART["skel"], 1, b1, b2, b3) and _fixed(PART["skel"], 2, c1, c2, c3)
    pre: PART.get("a1") is None or a1 == PART["a1"]
    post: _
    """
    idx = [(conc_int(a1, 0, 2), conc_int(a2, 0, 3), conc_int(a3, 0, 3)), (conc_int(b1, 0, 2), conc_int(b2, 0, 3), conc_int(b3, 0, 3)),
           (conc_int(c1, 0, 2), conc_int(c2, 0, 3), conc_int(c3, 0, 3))]
    return untraced(_run, PART["skel"], PART["base"], idx)


def _second_index_ok(skel, *second):
    """The second index has 4 values for argument kinds (4 flag kinds) and 3 for short names."""
    for pos, v in enumerate(second):
        kind = skel[pos] if pos < len(skel) else None
        if v > (3 if kind in ("A", "SA", "A2", "SA2") else 2):
            return False
    return True


def _fixed(skel, pos, i1, i2, i3):
    """Indices an operation does not use are pinned to 0 (no duplicate paths)."""
    if pos >= len(skel):
        return i1 == 0 and i2 == 0 and i3 == 0
    k = skel[pos]
    if k in ("SO0", "SC0", "SA0", "SN0"):
        return i1 == 0 and i2 == 0 and i3 == 0
    if k in ("O", "SO", "A", "SA"):
        return i3 == 0
    if k == "N":
        return i2 == 0 and i3 == 0 and i1 <= 1
    return True


def direct_reject(a1: int, a2: int, b1: int, b2: int, kind: int) -> bool:
    """
    pre: 0 <= a1 <= 2 and 0 <= a2 <= 2 and 0 <= b1 <= 2 and 0 <= b2 <= 2 and 0 <= kind <= 1
    post: _
    """
    # direct construction from a list must reject exactly what the builder rejects (also against the base)
    base, mbase = BASES[PART["base"]], MBASES[PART["base"]]
    a1, a2, b1, b2 = _conc(a1, 3), _conc(a2, 3), _conc(b1, 3), _conc(b2, 3)
    if kind == 0:
        els = [_OPT[(LONGS[a1], SHORTS[a2])], _OPT[(LONGS[b1], SHORTS[b2])]]
        m = Model(mbase)
        ok = m.can_add_option(els[0])
        if ok:
            m.opts.append(els[0])
            ok = m.can_add_option(els[1])
    else:
        els = [_ARG[(ANAMES[a1], a2)], _ARG[(ANAMES[b1], b2)]]
        m = Model(mbase)
        ok = m.can_add_arg(els[0])
        if ok:
            m.args.append(els[0])
            ok = m.can_add_arg(els[1])
    try:
        ArgsFormat(els, base)
        accepted = True
    except (CannotAddOptionException, CannotAddArgumentException):
        accepted = False
    return accepted == ok


def seq_twin(a1: int, a2: int, a3: int, b1: int, b2: int, b3: int, c1: int, c2: int, c3: int) -> bool:
    """
    pre: 0 <= a1 <= 2 and 0 <= a2 <= 2 and a3 == 0 and 0 <= b1 <= 2 and 0 <= b2 <= 2 and 0 <= b3 <= 3 and c1 == 0 and c2 == 0 and c3 == 0
    post: _
    """
    # reachability twin: some O,C pair is accepted entirely and some is rejected on the alias only
    a1, a2, b1, b2, b3 = conc_int(a1, 0, 2), conc_int(a2, 0, 2), conc_int(b1, 0, 2), conc_int(b2, 0, 2), conc_int(b3, 0, 3)
    ok = untraced(_run, ["O", "C"], "none", [(a1, a2, 0), (b1, b2, b3), (0, 0, 0)])
    el, co = _OPT[(LONGS[_conc(a1, 3)], SHORTS[_conc(a2, 3)])], _COPT[(LONGS[_conc(b1, 3)], SHORTS[_conc(b2, 3)], _conc(b3, 4))]
    alias_clash = el.long_name in co.long_aliases and el.long_name != co.long_name and el.short_name != co.short_name
    return not (ok and alias_clash)


QUICK = [["O"], ["C"], ["A"], ["N"], ["O", "O"], ["O", "C"], ["C", "O"], ["C", "C"], ["A", "A"], ["N", "A"], ["O", "A"],
         ["O", "SO0", "O"], ["A", "SA0", "A"], ["C", "SC0", "C"], ["N", "SN0"], ["O", "SO0"], ["A", "SA0"],
         ["A2"], ["A", "A2"], ["A2", "A"], ["SA2"], ["A", "SA2"],
         ["SO", "O"], ["O", "SO"], ["SC", "C"], ["C", "SC"], ["SA", "A"], ["A", "SA"], ["O", "SC", "O"], ["A", "A", "A"], ["O", "O", "O"], ["O", "A", "C"]]
THOROUGH = QUICK + [["C", "C", "O"], ["O", "C", "C"], ["C", "O", "C"], ["C", "C", "C"], ["A", "SA", "A"], ["C", "SC", "C"], ["O", "SO", "C"], ["N", "N", "A"], ["A", "O", "A"], ["SO", "SC", "SA"]]


def conditions(tier):
    quick = tier == "quick"
    t = 100 if quick else 1500
    conds = []
    for skel in (QUICK if quick else THOROUGH):
        big = len(skel) == 3 and "C" in [k for k in skel if k in ("C", "SC")]
        for base in (("none", "B2") if (quick and len(skel) == 3) else ("none", "B1", "B2")):
            for a1 in ([0, 1, 2] if big else [None]):
                conds.append({"name": "seq[%s,%s%s]" % ("".join(skel), base, "" if a1 is None else ",first=%d" % a1), "fn": seq, "timeout": t,
                              "part": {"skel": skel, "base": base, "a1": a1},
                              "bounds": "operations %s on base stack %s; every pool index symbolic%s" % (skel, base, "" if a1 is None else " (first long-name index %d)" % a1)})
    for base in ("none", "B1", "B2"):
        conds.append({"name": "direct_reject[%s]" % base, "fn": direct_reject, "timeout": t, "part": {"base": base},
                      "bounds": "ArgsFormat([e1, e2], base) for every pair of pool options / pool arguments"})
    conds.append({"name": "seq_twin", "fn": seq_twin, "timeout": t, "expect": "refute", "part": {"skel": ["O", "C"], "base": "none"}, "bounds": "reachability twin"})
    return conds

#!/verif/.venv/bin/python
# Replays a counterexample on the real code in /repo/src (no solver involved).
import os, sys, json
sys.path[:0] = ['/verif', '/repo/src']
from vf.replay import replay
ARGS = json.loads('{"site_i": 0, "verbosity": 0, "ignore_i": 0, "second_ignore_i": 2, "second_verbosity": 0}')
r = replay('harness.c20', 'render_twice[first]', ARGS, 'quick')
print('REPRODUCED: ' + r if r else 'NOT-REPRODUCED')
sys.exit(1 if r else 0)

"""C16 - a progress bar always shows a truthful, well-formed frame and ends at 100%.

E2 (AST -> SMT): the arithmetic kernels are translated from the current source of ProgressBar:
  * `_formatter_percent`  (QF_BV): displayed percent == floor(100*step/max) for every 0 <= step <= max <= 65535;
  * `bar_offset` + `_formatter_bar` (QF_BVFP, cvc5; strings abstracted to their length): the bar segment is exactly
    bar_width wide for every 0 <= step <= max <= 4095, 1 <= bar_width <= 64;
  * `set_progress` (QF_BVFP; clock = two nondeterministic floats; `display` = a stub recording whether it was called):
    0 <= step <= max afterwards, max never shrinks, reaching max always draws, any other draw respects the minimum interval.
E1 (CrossHair, finite domains split by the solver, real code run on a virtual clock): call sequences
start/advance/set_progress/display/clear/finish with clock advances, on ANSI / plain / section / quiet outputs;
every written frame is parsed and the emitted bytes are interpreted by a small terminal emulator.
"""
import re
import time as _time

import z3

import clikit.ui.components.progress_bar as pbmod
from clikit.api.io.output import Output
from clikit.formatter import AnsiFormatter, PlainFormatter
from clikit.io.output_stream.buffered_output_stream import BufferedOutputStream
from clikit.ui.components.progress_bar import ProgressBar

from vf import kf
from vf.sym import conc_int, untraced

PROPERTY = "C16"
FUNCTIONS = ["ProgressBar._formatter_percent", "ProgressBar.bar_offset/_formatter_bar", "ProgressBar.set_progress/advance/start/finish/display/clear/_overwrite/_set_max_steps/_determine_best_format",
             "SectionOutput.clear/write (through the bar)"]
PART = {}
EXTRA_BOUNDS = 'also: custom formats (message / two-line / three-line) with messages of length 1/4/30 on ANSI, plain, section and middle-section outputs at a terminal one column wider than the longest line; bar widths 1 and 2; a section of a plain output; a bar handed an I/O object with a decorated standard and a plain error output; E2 set_progress with minimum and maximum interval independent.'
BOUNDS = {"quick": "E2: percent for all 0<=step<=max<=65535; bar width for all step<=max<=4095, bar_width<=64; set_progress for |arg|<=4095, max<=4095, any float clock readings in [0,1e6]; "
                   "E1: start + 2 (all configs) or 3 (main config) operations from 8 + finish, clock advance before each from {0, 50 ms, 2 s}; maxima {0,3,10}; bar width 10; min interval 100 ms; ANSI/plain/section/quiet",
          "thorough": "E1: 3 middle operations on every config, 4 on the main one; maxima {0,1,3,10,50}; bar widths {1,10,28}"}
OUTSIDE = ["custom multi-line formats and %elapsed%/%estimated% texts (verbosity > normal)", "the 'no maximum' bar offset (float modulo) is exercised concretely in E1 only, not encoded in E2",
           "sequences longer than stated; random length-60 sequences", "terminal emulation of tab stops"]
STUBS = ["time.time in clikit.ui.components.progress_bar -> virtual clock (E1) / nondeterministic Float64 values now1, now2 with now2 >= now1 >= last_write_time (E2)",
         "E2: self.display() -> records 'drawn'; strings -> their lengths; self._io.remove_format(x) -> x"]
ASSUMPTIONS = ["progress character is the default single '>'", "a redraw 'caused by advancing' is one made by advance/set_progress that does not reach the maximum"]

# ------------------------------------------------------------------------------------------------ E2

BV = 24


def _solve_z3(assertions, timeout_ms=120000):
    s = z3.Solver()
    s.set("timeout", timeout_ms)
    s.add(*assertions)
    t = _time.time()
    r = str(s.check())
    return r, (s.model() if r == "sat" else None), _time.time() - t


def smt_percent(tier):
    from vf.py2smt import Ctx, run_method
    step, mx = z3.BitVec("step", BV), z3.BitVec("max", BV)
    ctx = Ctx(bv=BV)
    ret, _ = run_method(ProgressBar, "_formatter_percent", {"self._step": step, "self._max": mx, "self._percent": 0.0}, [], ctx)
    pre = [mx >= 1, mx <= 65535, step >= 0, step <= mx]
    # reference: unsigned division circuit on the exact product (no overflow: 65535*100 < 2**23); avoids a symbolic x symbolic multiplication
    ok = z3.And(ret == z3.UDiv(step * 100, mx), ret >= 0, ret <= 100)
    # translator validation on the repo's own test values and a grid
    bad = []
    for m in (1, 3, 10, 50, 100, 200, 4096):
        for s_ in sorted({0, 1, m // 3, m // 2, m - 1, m, 29 % (m + 1), 57 % (m + 1), 114 % (m + 1)}):
            real = _real_percent(s_, m)
            enc = z3.simplify(z3.substitute(ret, (step, z3.BitVecVal(s_, BV)), (mx, z3.BitVecVal(m, BV)))).as_signed_long()
            if real != enc:
                bad.append((s_, m, real, enc))
    if bad:
        return {"verdict": "error", "message": "translator validation failed: %r" % bad[:5]}
    r, model, dt = _solve_z3(pre + [z3.Not(ok)])
    detail = [{"obligation": "percent == floor(100*step/max), 0<=step<=max<=65535", "result": r, "solver_s": round(dt, 3)}]
    if r == "sat":
        return {"verdict": "refuted", "args": {"kernel": "percent", "step": model[step].as_long(), "max": model[mx].as_long()}, "queries": 1, "solver_s": round(dt, 3), "detail": detail}
    if r != "unsat":
        return {"verdict": "unknown", "queries": 1, "solver_s": round(dt, 3), "detail": detail, "message": "solver answered " + r}
    w, _, dt2 = _solve_z3(pre + [ret == 57])
    if w != "sat":
        if w != "unsat":
            return {"verdict": "unknown", "message": "vacuity witness inconclusive (solver answered %s)" % w}
        return {"verdict": "error", "message": "vacuity witness failed"}
    zero, _, dt3 = _solve_z3([z3.Not(_percent_nomax_zero())])
    detail.append({"obligation": "no maximum => 0 percent", "result": zero})
    if zero != "unsat":
        return {"verdict": "unknown", "detail": detail, "message": "nomax obligation " + zero}
    return {"verdict": "confirmed", "queries": 3, "solver_s": round(dt + dt2 + dt3, 3), "detail": detail}


def _percent_nomax_zero():
    from vf.py2smt import Ctx, run_method
    step = z3.BitVec("step", BV)
    ctx = Ctx(bv=BV)
    ret, _ = run_method(ProgressBar, "_formatter_percent", {"self._step": step, "self._max": 0, "self._percent": 0.0}, [], ctx)
    if isinstance(ret, int):
        return z3.BoolVal(ret == 0)
    return ret == 0


def _real_percent(step, mx):
    b = ProgressBar(Output(BufferedOutputStream(), PlainFormatter()), mx, 0)
    b._step = step
    b._percent = step / mx if mx else 0.0
    return b._formatter_percent()


def _bar_len(step, mx, bw):
    b = ProgressBar(Output(BufferedOutputStream(), PlainFormatter()), mx, 0)
    b.bar_width = bw
    b._step = step
    b._percent = step / mx if mx else 0.0
    return len(b._formatter_bar())


def smt_bar(tier):
    """Bar segment width via QF_BVFP (cvc5).  Strings are abstracted to their length by the translator."""
    from vf import smtlib
    from vf.py2smt import Ctx, LenStr, run_method
    W = 16
    step, mx, bw = z3.BitVec("step", W), z3.BitVec("max", W), z3.BitVec("bw", W)
    ctx = Ctx(bv=W)
    percent = z3.fpDiv(z3.RNE(), z3.fpSignedToFP(z3.RNE(), step, z3.Float64()), z3.fpSignedToFP(z3.RNE(), mx, z3.Float64()))
    env = {"self._max": mx, "self._percent": percent, "self.bar_width": bw, "self.progress_char": LenStr(1), "self.empty_bar_char": LenStr(1),
           "self.bar_char": None, "self.redraw_freq": 1, "self._step": step}
    stubs = {"remove_format": lambda it, fr, args, guard: args[0]}
    ret, _ = run_method(ProgressBar, "_formatter_bar", env, [], ctx, stubs=stubs)
    length = ret.length if isinstance(ret, LenStr) else None
    if length is None:
        return {"verdict": "error", "message": "translator did not produce a length"}
    bad = []
    for (s_, m, b) in [(0, 10, 10), (3, 10, 10), (10, 10, 10), (29, 100, 28), (57, 100, 40), (1, 3, 1), (2, 3, 5), (114, 200, 28), (199, 200, 64), (7, 7, 3)]:
        enc = z3.simplify(z3.substitute(length, (step, z3.BitVecVal(s_, W)), (mx, z3.BitVecVal(m, W)), (bw, z3.BitVecVal(b, W))))
        if enc.as_signed_long() != _bar_len(s_, m, b):
            bad.append((s_, m, b, enc.as_signed_long(), _bar_len(s_, m, b)))
    if bad:
        return {"verdict": "error", "message": "translator validation failed: %r" % bad[:5]}
    lim = 4095 if tier == "quick" else 16000
    pre = [mx >= 1, mx <= lim, step >= 0, step <= mx, bw >= 1, bw <= 64]
    side = [c for _, c in ctx.side]
    goal = z3.Or(length != bw, *side) if side else (length != bw)
    r, model, dt = smtlib.check(pre + [goal], logic="QF_BVFP", timeout_s=240)
    detail = [{"obligation": "len(bar) == bar_width for all 0<=step<=max<=%d, 1<=bar_width<=64 (cvc5 QF_BVFP)" % lim, "result": r, "solver_s": round(dt, 2)}]
    if r == "sat":
        return {"verdict": "refuted", "args": {"kernel": "bar", "step": model["step"], "max": model["max"], "bw": model["bw"]}, "queries": 1, "solver_s": round(dt, 2), "detail": detail}
    if r != "unsat":
        return {"verdict": "unknown", "queries": 1, "solver_s": round(dt, 2), "detail": detail, "message": "solver answered " + r}
    w, _, dt2 = smtlib.check(pre + [length == bw, step > 0, step < mx, bw == 28], logic="QF_BVFP", timeout_s=120)
    if w != "sat":
        if w != "unsat":
            return {"verdict": "unknown", "message": "vacuity witness inconclusive (solver answered %s)" % w}
        return {"verdict": "error", "message": "vacuity witness failed: " + w}
    return {"verdict": "confirmed", "queries": 2, "solver_s": round(dt + dt2, 2), "detail": detail}


def smt_set_progress(tier):
    """Invariants and throttle of set_progress via QF_BVFP; clock readings are nondeterministic floats."""
    from vf import smtlib
    from vf.py2smt import Ctx, run_method
    W = 16
    F = z3.Float64()
    arg, step0, mx0 = z3.BitVec("arg", W), z3.BitVec("step0", W), z3.BitVec("max0", W)
    last, now, min_s, max_s = z3.FP("last", F), z3.FP("now", F), z3.FP("min_s", F), z3.FP("max_s", F)
    results = []
    for freq_none in (True, False):
        ctx = Ctx(bv=W)
        drawn = {"g": z3.BoolVal(False)}

        def display_stub(it, fr, args, guard, drawn=drawn):
            drawn["g"] = z3.Or(drawn["g"], guard)
            return None

        env = {"self._max": mx0, "self._step": step0, "self.redraw_freq": None if freq_none else 1, "self._percent": 0.0,
               "self._last_write_time": last, "self._min_seconds_between_redraws": min_s, "self._max_seconds_between_redraws": max_s}
        stubs = {"display": display_stub, "time.time": lambda it, fr, args, guard: now}
        ret, out = run_method(ProgressBar, "set_progress", env, [arg], ctx, stubs=stubs)
        step1, mx1 = out["self._step"], out["self._max"]
        fin = lambda x: z3.And(z3.Not(z3.fpIsNaN(x)), z3.Not(z3.fpIsInf(x)))
        pre = [arg >= -4095, arg <= 4095, mx0 >= 0, mx0 <= 4095, step0 >= 0, z3.Or(mx0 == 0, step0 <= mx0), step0 <= 4095,
               fin(last), fin(now), fin(min_s), fin(max_s), z3.fpGEQ(now, last), z3.fpGEQ(last, z3.FPVal(0.0, F)), z3.fpLEQ(now, z3.FPVal(1e6, F)),
               z3.fpGEQ(min_s, z3.FPVal(0.0, F)), z3.fpLEQ(min_s, z3.FPVal(10.0, F)), z3.fpGEQ(max_s, z3.FPVal(0.0, F)), z3.fpLEQ(max_s, z3.FPVal(100.0, F))]       # (minimum and maximum interval independent: also min > max)
        interval = z3.fpSub(z3.RNE(), now, last)
        obligations = [
            ("0 <= step <= max afterwards (known maximum)", z3.And(mx0 > 0, z3.Not(z3.And(step1 >= 0, step1 <= mx1)))),
            ("step >= 0 afterwards", step1 < 0),
            ("the maximum never shrinks", mx1 < mx0),
            ("reaching the maximum always draws", z3.And(step1 == mx1, z3.Not(drawn["g"]))),
            ("a draw that does not reach the maximum respects the minimum interval", z3.And(drawn["g"], step1 != mx1, z3.fpLT(interval, min_s))),
            ("no exception", ctx.exc),
        ]
        side = [c for n, c in ctx.side]
        if side:
            obligations.append(("no division by zero", z3.Or(*side)))
        for name, bad in obligations:
            r, model, dt = smtlib.check(pre + [bad], logic="QF_BVFP", timeout_s=200)
            results.append({"obligation": name + (" [time-based redraws]" if freq_none else " [redraw_freq=1]"), "result": r, "solver_s": round(dt, 2)})
            if r == "sat":
                return {"verdict": "refuted", "args": {"kernel": "set_progress", "freq_none": freq_none, "arg": model.get("arg"), "step0": model.get("step0"), "max0": model.get("max0"),
                                                       "last": model.get("last"), "now": model.get("now"), "min_s": model.get("min_s"), "max_s": model.get("max_s"), "obligation": name},
                        "queries": len(results), "detail": results, "message": name}
            if r != "unsat":
                return {"verdict": "unknown", "queries": len(results), "detail": results, "message": "%s: solver answered %s" % (name, r)}
        w, _, dt = smtlib.check(pre + [drawn["g"], step1 != mx1, mx0 > 0], logic="QF_BVFP", timeout_s=120)
        results.append({"witness": "a throttled draw is reachable", "result": w})
        if w != "sat":
            if w != "unsat":
                return {"verdict": "unknown", "message": "vacuity witness inconclusive (solver answered %s)" % w}
            return {"verdict": "error", "message": "vacuity witness failed", "detail": results}
    return {"verdict": "confirmed", "queries": len(results), "solver_s": round(sum(r.get("solver_s", 0) for r in results), 2), "detail": results}


def _replay_smt(args):
    k = args.get("kernel")
    if k == "percent":
        s_, m = args["step"], args["max"]
        got = _real_percent(s_, m)
        return None if got == (s_ * 100) // m else "ProgressBar at step %d of %d displays %d%% (exact: %d%%)" % (s_, m, got, (s_ * 100) // m)
    if k == "bar":
        s_, m, b = int(args["step"]), int(args["max"]), int(args["bw"])
        got = _bar_len(s_, m, b)
        return None if got == b else "bar segment is %d characters wide at step %d/%d with bar_width %d" % (got, s_, m, b)
    if k == "set_progress":
        return _replay_set_progress(args)
    return "unknown kernel"


def _replay_set_progress(a):
    clock = {"t": float(a["last"])}
    saved = pbmod.time
    pbmod.time = _virtual_time(clock)
    try:
        bar = ProgressBar(Output(BufferedOutputStream(), AnsiFormatter(forced=True)), int(a["max0"]), 0)
        bar._step = int(a["step0"])
        bar._min_seconds_between_redraws = float(a["min_s"])
        bar._max_seconds_between_redraws = float(a["max_s"])
        bar.redraw_freq = None if a["freq_none"] else 1
        bar._last_write_time = float(a["last"])
        draws = []
        bar.display = lambda: draws.append(1)
        clock["t"] = float(a["now"])
        bar.set_progress(int(a["arg"]))
        st, mx = bar.get_progress(), bar.get_max_steps()
        if st < 0 or (int(a["max0"]) > 0 and st > mx) or mx < int(a["max0"]):
            return "after set_progress(%s): step=%s max=%s" % (a["arg"], st, mx)
        if st == mx and not draws:
            return "reaching the maximum did not draw"
        if draws and st != mx and float(a["now"]) - float(a["last"]) < float(a["min_s"]):
            return "drew %.6f s after the previous draw (minimum %.6f s)" % (float(a["now"]) - float(a["last"]), float(a["min_s"]))
        return None
    finally:
        pbmod.time = saved


# ------------------------------------------------------------------------------------------------ E1

def _virtual_time(clock):
    """A stand-in for the `time` module: every clock the library might read is the virtual one, everything else is the real module's."""
    read = staticmethod(lambda: clock["t"])
    return type("T", (), {"time": read, "monotonic": read, "perf_counter": read, "sleep": staticmethod(lambda s: None),
                          "__getattr__": lambda self, name: getattr(_time, name)})()


OPS = ["adv1", "adv3", "set_mid", "set_over", "set_neg", "display", "clear", "start"]
DELTAS = [0.0, 0.05, 2.0]
MIN_INTERVAL = 0.1
FRAME = re.compile(r"^\s*(\d+)/(\d+) \[(.*)\]\s+(\d+)%\s*$")
FRAME_NOMAX = re.compile(r"^\s*(\d+) \[(.*)\]\s*$")


class Screen:
    """Just enough of a terminal: CR, LF, cursor up, erase to end of screen; unlimited width (no wrapping here)."""

    def __init__(self):
        self.rows, self.r, self.c = [""], 0, 0

    def feed(self, s):
        i = 0
        while i < len(s):
            ch = s[i]
            if ch == "\n":
                self.r += 1
                self.c = 0
                while self.r >= len(self.rows):
                    self.rows.append("")
                i += 1
            elif ch == "\r":
                self.c = 0
                i += 1
            elif ch == "\x1b":
                m = re.match(r"\x1b\[(\d*)([AJ])", s[i:])
                if not m:
                    return False
                n = int(m.group(1) or 0)
                if m.group(2) == "A":
                    self.r = max(0, self.r - n)
                else:
                    self.rows[self.r] = self.rows[self.r][: self.c]
                    del self.rows[self.r + 1:]
                i += len(m.group(0))
            else:
                row = self.rows[self.r]
                self.rows[self.r] = row[: self.c].ljust(self.c) + ch + row[self.c + 1:]
                self.c += 1
                i += 1
        return True


def _sequence_case(kind, mx, bw, ops, deltas):
    clock = {"t": 1000.0}
    saved = pbmod.time
    pbmod.time = _virtual_time(clock)
    try:
        st = BufferedOutputStream()
        ansi = kind in ("ansi", "section", "quiet")
        out = Output(st, AnsiFormatter(forced=True) if ansi else PlainFormatter())
        target = out.section() if kind in ("section", "plainsection") else out
        if kind == "plainsection":          # a section of an output without ANSI support behaves like that output
            kind = "plain"
        if kind == "mixedio":               # the bar is handed an I/O object: it draws on the ERROR output, and that one is plain here while the standard output is decorated
            from clikit.api.io import IO, Input
            from clikit.io.input_stream.string_input_stream import StringInputStream
            target = IO(Input(StringInputStream("")), Output(BufferedOutputStream(), AnsiFormatter(forced=True)), out)
            kind = "plain"
        if kind == "quiet":
            out.set_quiet(True)
        bar = ProgressBar(target, mx, MIN_INTERVAL)
        bar.set_bar_width(bw)
        frames = []                      # (text, clock, op, step, max)
        orig = bar._overwrite

        def spy(message):
            frames.append((message, clock["t"], cur["op"], bar.get_progress(), bar.get_max_steps()))
            return orig(message)

        bar._overwrite = spy
        cur = {"op": None}
        scr, fed = Screen(), 0
        for op, d in zip(["start"] + list(ops) + ["finish"], [0.0] + list(deltas) + [0.05]):
            clock["t"] += d
            cur["op"] = op
            n_before = len(frames)
            m = bar.get_max_steps()
            if op == "start":
                bar.start()
            elif op == "adv1":
                bar.advance()
            elif op == "adv3":
                bar.advance(3)
            elif op == "set_mid":
                bar.set_progress(m // 2)
            elif op == "set_over":
                bar.set_progress(m + 7)
            elif op == "set_neg":
                bar.set_progress(-2)
            elif op == "display":
                bar.display()
            elif op == "clear":
                bar.clear()
            else:
                bar.finish()
            s_, m_ = bar.get_progress(), bar.get_max_steps()
            if s_ < 0 or (m_ and s_ > m_):
                return False
            if kind in ("ansi", "section") and len(frames) > n_before:
                # after every draw the terminal shows exactly the latest frame (nothing of longer earlier frames), or nothing after clear()
                text_now = st.fetch()
                if not scr.feed(text_now[fed:]):
                    return False
                fed = len(text_now)
                shown = [r.rstrip() for r in scr.rows if r.strip() != ""]
                latest = frames[-1][0].strip("\n").rstrip()
                if shown != ([latest] if latest != "" else []):
                    return False
            new = [f for f in frames[n_before:] if f[0].strip("\n") != ""]
            if kind != "quiet":
                if op in ("start", "display") and len(new) != 1:
                    return False         # explicit draws always draw
                if op.startswith(("adv", "set_")) and m_ and s_ == m_ and len(new) != 1:
                    return False         # reaching the maximum always draws
                if op.startswith(("adv", "set_")) and new and s_ != m_:       # (a bar without maximum at step 0 counts as "at its maximum": 0 == 0, as in the code and in the E2 obligation)
                    prev = [f for f in frames[:n_before] if f[0].strip("\n") != ""]
                    if prev and clock["t"] - prev[-1][1] < MIN_INTERVAL - 1e-9:
                        return False     # redraws caused by advancing respect the minimum interval
        text = st.fetch()
        real = [f for f in frames if f[0].strip("\n") != ""]
        if kind == "quiet":
            return text == ""
        # every frame is truthful and well formed
        nomax_format = mx == 0          # the format is chosen at the first draw: without a maximum there is no "/max" and no percentage
        for msg, t, op, s_, m_ in real:
            line = msg.rstrip()
            if not nomax_format:
                mm = FRAME.match(line)
                if not mm:
                    return False
                cs, cm, barseg, pct = int(mm.group(1)), int(mm.group(2)), mm.group(3), int(mm.group(4))
                if cs != s_ or cm != m_ or not (0 <= cs <= cm) or pct != (cs * 100) // cm or len(barseg) != bw:
                    return False
            else:
                mm = FRAME_NOMAX.match(line)
                if not mm or int(mm.group(1)) != s_ or len(mm.group(2)) != bw:
                    return False
        # the last frame after finish shows the maximum at 100%
        if not real:
            return False
        last = real[-1]
        fm = bar.get_max_steps()
        if not nomax_format:
            mm = FRAME.match(last[0].rstrip())
            if not (mm and int(mm.group(1)) == fm and int(mm.group(4)) == 100 and last[3] == fm):
                return False
        elif kf.excluded("C16-plain-nomax-finish", kind == "plain"):
            pass          # known finding: on a plain output a bar without maximum may never show its final step (finish() returns early)
        else:
            mm = FRAME_NOMAX.match(last[0].rstrip())
            if not (mm and int(mm.group(1)) == fm == last[3] and (fm == 0 or kind == "plain" or mm.group(2) == "=" * bw)):
                return False
        if kind == "plain":
            if "\x1b" in text or "\r" in text:
                return False
            return [l.rstrip() for l in text.split("\n")] == [f[0].rstrip() for f in real]
        scr = Screen()
        if not scr.feed(text):
            return False
        shown = [r.rstrip() for r in scr.rows if r.strip() != ""]
        return shown == [last[0].rstrip()]          # the terminal shows exactly the latest frame, nothing else
    finally:
        pbmod.time = saved


# ---- custom formats and messages of varying length (single-line with a message, two-line), incl. on a section that is not the last one
OPS_C = ["adv1", "adv3", "set_mid", "display", "clear", "msg_long", "msg_short", "start"]
DELTAS_C = [0.0, 2.0]
FORMATS_C = {"msg1": "%message% %current%/%max% [%bar%] %percent:3s%%", "two": "%message%\n %current%/%max% [%bar%] %percent:3s%%",
             "three": "%message%\n %current%/%max% [%bar%]\n %percent:3s%% done"}
MESSAGES_C = {"init": "init", "msg_long": "L" * 30, "msg_short": "s"}
# terminal width: one more than the longest line any frame of the format can have (no line ever wraps, but a frame as a whole is longer than the terminal is wide)
W_C = {"msg1": 56, "two": 31, "three": 31}


def _expected_lines(fmtkind, msg, step, mx, bw):
    """The frame the statement promises, written out independently of ProgressBar: message, current step, maximum, a bar segment of exactly bw characters, the exact percentage."""
    done = step * bw // mx
    seg = "=" * done + (">" + "-" * (bw - done - 1) if done < bw else "")
    cur = str(step).rjust(len(str(mx)))
    pct = str(step * 100 // mx).rjust(3) + "%"
    if fmtkind == "msg1":
        return ["%s %s/%d [%s] %s" % (msg, cur, mx, seg, pct)]
    if fmtkind == "two":
        return [msg, " %s/%d [%s] %s" % (cur, mx, seg, pct)]
    return [msg, " %s/%d [%s]" % (cur, mx, seg), " %s done" % pct]


def _custom_case(kind, fmtkind, mx, bw, ops, deltas):
    import clikit.utils.terminal as termmod
    clock = {"t": 1000.0}
    saved, saved_w = pbmod.time, termmod.Terminal.width
    pbmod.time = _virtual_time(clock)
    termmod.Terminal.width = property(lambda self: W_C[fmtkind])
    try:
        st = BufferedOutputStream()
        out = Output(st, PlainFormatter() if kind == "plain" else AnsiFormatter(forced=True))
        above = below = None
        if kind == "section2":           # the bar lives in the middle one of three sections; the others must stay as they are
            above = out.section()
            target = out.section()
            below = out.section()
            above.write_line("ABOVE")
            below.write_line("BELOW")
        elif kind == "section":
            target = out.section()
        else:
            target = out
        bar = ProgressBar(target, mx, MIN_INTERVAL)
        bar.set_bar_width(bw)
        bar.set_format(FORMATS_C[fmtkind])
        msg = MESSAGES_C["init"]
        bar.set_message(msg)
        draws = []                      # (expected lines at the time of the draw, clock, op)
        blank = []
        orig = bar._overwrite

        def spy(message):
            if message.strip("\n") == "":
                blank.append(clock["t"])
            else:
                draws.append((_expected_lines(fmtkind, msg, bar.get_progress(), bar.get_max_steps(), bw), clock["t"], cur["op"], message))
            return orig(message)

        bar._overwrite = spy
        cur = {"op": None}
        scr, fed = Screen(), 0
        showing = False
        for op, d in zip(["start"] + list(ops) + ["finish"], [0.0] + list(deltas) + [0.05]):
            clock["t"] += d
            cur["op"] = op
            n_before, b_before = len(draws), len(blank)
            m = bar.get_max_steps()
            if op == "start":
                bar.start()
            elif op == "adv1":
                bar.advance()
            elif op == "adv3":
                bar.advance(3)
            elif op == "set_mid":
                bar.set_progress(m // 2)
            elif op == "display":
                bar.display()
            elif op == "clear":
                bar.clear()
            elif op in ("msg_long", "msg_short"):
                msg = MESSAGES_C[op]
                bar.set_message(msg)
            else:
                bar.finish()
            s_, m_ = bar.get_progress(), bar.get_max_steps()
            if s_ < 0 or s_ > m_:
                return False
            new = draws[n_before:]
            if op in ("start", "display") and len(new) != 1:
                return False
            if op in ("adv1", "adv3", "set_mid", "finish") and s_ == m_ and len(new) != 1:
                return False
            if op in ("adv1", "adv3", "set_mid") and new and s_ != m_:
                if draws[:n_before] and clock["t"] - draws[n_before - 1][1] < MIN_INTERVAL - 1e-9:
                    return False
            if op in ("msg_long", "msg_short") and len(blank) != b_before:
                return False             # changing the message never blanks the bar (whether it redraws at once is not the statement's business: a frame it draws is checked like any other)
            for exp, t, o, message in new:
                if [l.rstrip() for l in message.split("\n")] != [l.rstrip() for l in exp]:
                    return False         # the frame is the truthful one: current message, step, maximum, bar width, percentage
            if new:
                showing = True
            elif len(blank) != b_before:
                showing = False
            if kind != "plain" and (new or len(blank) != b_before):
                text_now = st.fetch()
                if not scr.feed(text_now[fed:]):
                    return False
                fed = len(text_now)
                shown = [r.rstrip() for r in scr.rows]
                while shown and shown[-1] == "":
                    shown.pop()
                want = [l.rstrip() for l in draws[-1][0]] if showing else []
                if kind == "section2":
                    want = ["ABOVE"] + want + ["BELOW"]
                if not showing:          # after clear() the rows of the bar are blank; how many blank rows remain is not the statement's business
                    shown = [r for r in shown if r != ""]
                if shown != want:
                    return False         # the terminal shows exactly the latest frame (every line of it), nothing stale, neighbours intact
        if not draws or draws[-1][2] != "finish" and bar.get_progress() != bar.get_max_steps():
            return False
        last = draws[-1]
        if last[0] != _expected_lines(fmtkind, msg, bar.get_max_steps(), bar.get_max_steps(), bw):
            return False                 # the last frame shows the maximum at 100 % with the current message
        text = st.fetch()
        if kind == "plain":
            if "\x1b" in text or "\r" in text:
                return False
            flat = [l.rstrip() for dr in draws for l in dr[0]]
            return [l.rstrip() for l in text.split("\n")] == flat
        return True
    finally:
        pbmod.time = saved
        termmod.Terminal.width = saved_w


def custom(o1: int, o2: int, o3: int, d1: int, d2: int, d3: int) -> bool:
    """
    pre: 0 <= o1 < 8 and 0 <= o2 < 8 and 0 <= o3 < 8 and 0 <= d1 < 2 and 0 <= d2 < 2 and 0 <= d3 < 2
    pre: PART["n"] > 2 or (o3 == 0 and d3 == 0)
    pre: PART.get("o1") is None or o1 == PART["o1"]
    post: _
    """
    n = PART["n"]
    ops = [OPS_C[conc_int(o, 0, 7)] for o in (o1, o2, o3)][:n]
    deltas = [DELTAS_C[conc_int(d, 0, 1)] for d in (d1, d2, d3)][:n]
    return untraced(_custom_case, PART["kind"], PART["fmt"], PART["max"], PART["bw"], ops, deltas)


def sequence(o1: int, o2: int, o3: int, d1: int, d2: int, d3: int) -> bool:
    """
    pre: 0 <= o1 < 8 and 0 <= o2 < 8 and 0 <= o3 < 8 and 0 <= d1 < 3 and 0 <= d2 < 3 and 0 <= d3 < 3
    pre: PART["n"] > 2 or (o3 == 0 and d3 == 0)
    pre: PART.get("o1") is None or o1 == PART["o1"]
    post: _
    """
    n = PART["n"]
    ops = [OPS[conc_int(o, 0, 7)] for o in (o1, o2, o3)][:n]
    deltas = [DELTAS[conc_int(d, 0, 2)] for d in (d1, d2, d3)][:n]
    return untraced(_sequence_case, PART["kind"], PART["max"], PART["bw"], ops, deltas)


def sequence_twin(o1: int, o2: int, o3: int, d1: int, d2: int, d3: int) -> bool:
    """
    pre: 0 <= o1 < 8 and 0 <= o2 < 8 and o3 == 0 and 0 <= d1 < 3 and 0 <= d2 < 3 and d3 == 0
    post: _
    """
    ops = [OPS[conc_int(o, 0, 7)] for o in (o1, o2)]
    deltas = [DELTAS[conc_int(d, 0, 2)] for d in (d1, d2)]
    ok = untraced(_sequence_case, "ansi", 10, 10, ops, deltas)
    return not (ok and ops == ["adv1", "adv1"] and deltas == [0.05, 0.05])     # twin: a throttled (undrawn) advance really occurs and passes


def conditions(tier):
    quick = tier == "quick"
    t = 120 if quick else 1500
    conds = [
        {"name": "smt_percent", "engine": "smt", "fn": smt_percent, "timeout": 200, "replay": _replay_smt, "bounds": "all 0 <= step <= max <= 65535 (z3 QF_BV over the translated _formatter_percent)"},
        {"name": "smt_bar", "engine": "smt", "fn": smt_bar, "timeout": 400, "replay": _replay_smt, "bounds": "all 0 <= step <= max <= 4095, 1 <= bar_width <= 64 (cvc5 QF_BVFP over the translated bar_offset/_formatter_bar)"},
        {"name": "smt_set_progress", "engine": "smt", "fn": smt_set_progress, "timeout": 900, "replay": _replay_smt, "bounds": "all |argument| <= 4095, 0 <= step <= max <= 4095 (max 0 = unknown), all finite clock readings last <= now <= 1e6, minimum interval in [0,10] s and maximum interval in [0,100] s independent of each other"},
    ]
    # (bar widths 1 and 2: more frames than the bar is wide are written within the bound)
    configs = [("ansi", 10, 10), ("ansi", 3, 10), ("ansi", 0, 10), ("plain", 10, 10), ("plain", 0, 10), ("section", 10, 10), ("quiet", 10, 10), ("plain", 3, 1), ("plain", 10, 2), ("ansi", 3, 2), ("plainsection", 3, 10), ("mixedio", 3, 10)]
    if not quick:
        configs += [("ansi", 1, 1), ("ansi", 50, 28), ("section", 3, 10), ("section", 0, 10), ("section", 3, 1)]
    for kind, mx, bw in configs:
        if quick:
            conds.append({"name": "sequence2[%s,max=%d,bw=%d]" % (kind, mx, bw), "fn": sequence, "timeout": t, "part": {"kind": kind, "max": mx, "bw": bw, "n": 2, "o1": None},
                          "bounds": "start, 2 operations from %r, finish; clock advance before each from %r; %s output" % (OPS, DELTAS, kind)})
        else:
            for o1 in range(8):
                conds.append({"name": "sequence3[%s,max=%d,bw=%d,%s]" % (kind, mx, bw, OPS[o1]), "fn": sequence, "timeout": t, "part": {"kind": kind, "max": mx, "bw": bw, "n": 3, "o1": o1},
                              "bounds": "start, %s, 2 more operations, finish" % OPS[o1]})
    if quick:
        for o1 in range(8):
            conds.append({"name": "sequence3[ansi,max=10,bw=10,%s]" % OPS[o1], "fn": sequence, "timeout": t, "part": {"kind": "ansi", "max": 10, "bw": 10, "n": 3, "o1": o1},
                          "bounds": "start, %s, 2 more operations from %r, finish; clock advances from %r" % (OPS[o1], OPS, DELTAS)})
    ckinds = [("ansi", "msg1"), ("ansi", "two"), ("plain", "two"), ("section", "msg1"), ("section", "two"), ("section2", "two"), ("section2", "three")]
    if not quick:
        ckinds += [("ansi", "three"), ("plain", "msg1"), ("plain", "three"), ("section", "three"), ("section2", "msg1")]
    for kind, fk in ckinds:
        if quick and (kind, fk) != ("section2", "two"):
            conds.append({"name": "custom2[%s,%s]" % (kind, fk), "fn": custom, "timeout": t, "part": {"kind": kind, "fmt": fk, "max": 10, "bw": 10, "n": 2, "o1": None},
                          "bounds": "custom format %r, start, 2 operations from %r (messages of length 1 / 4 / 30), finish; clock advances from %r; %s" % (FORMATS_C[fk], OPS_C, DELTAS_C, kind)})
        else:
            for o1 in range(8):
                conds.append({"name": "custom3[%s,%s,%s]" % (kind, fk, OPS_C[o1]), "fn": custom, "timeout": t, "part": {"kind": kind, "fmt": fk, "max": 10, "bw": 10, "n": 3, "o1": o1},
                              "bounds": "custom format %r, start, %s, 2 more operations from %r, finish; %s" % (FORMATS_C[fk], OPS_C[o1], OPS_C, kind)})
    conds.append({"name": "sequence_twin", "fn": sequence_twin, "timeout": t, "expect": "refute", "part": {"kind": "ansi", "max": 10, "bw": 10, "n": 2}, "bounds": "reachability twin"})
    return conds

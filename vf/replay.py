"""Concrete replay of a counterexample on the real, untraced code.

usage: python -m vf.replay <harness module> <condition> <args.json | inline json> [--no-exclusions]

exit 1 + "REPRODUCED: ..." when the real code shows the failure, exit 0 + "NOT-REPRODUCED" otherwise.
No CrossHair, no solver: the harness function is an ordinary Python function calling clikit.
"""
import json
import os
import sys
import traceback

sys.path.insert(0, os.path.dirname(os.path.dirname(os.path.abspath(__file__))))


def replay(modname, cname, args, tier=None):
    tier = tier or os.environ.get("VERIF_TIER", "quick")
    import importlib

    mod = importlib.import_module(modname)
    cond = None
    for t in (tier, "quick", "thorough"):
        for c in mod.conditions(t):
            if c["name"] == cname:
                cond = c
                break
        if cond:
            break
    if cond is None:
        return "harness-error: no condition %s" % cname
    if hasattr(mod, "PART"):
        mod.PART.clear()
        mod.PART.update(cond.get("part", {}))
    if "replay" in cond:
        return cond["replay"](args)
    fn = cond["fn"]
    try:
        r = fn(**args)
    except Exception as e:  # noqa
        last = traceback.extract_tb(e.__traceback__)[-1]
        here = os.path.dirname(os.path.dirname(os.path.abspath(__file__)))
        if isinstance(e, (AttributeError, ImportError, NameError)) and os.path.abspath(last.filename).startswith(here + os.sep):
            # the HARNESS reached for something the code under test no longer has (a private attribute, a moved name): that says
            # nothing about the property - it is a harness error (exit 2), never a violation
            return "harness-error: %s: %s at %s:%s" % (type(e).__name__, e, last.filename, last.lineno)
        tb = traceback.format_exc().strip().splitlines()
        return "%s(**%r) raised %s: %s  [%s]" % (fn.__name__, args, type(e).__name__, e, tb[-3].strip() if len(tb) > 2 else "")
    if not r:
        extra = ""
        if hasattr(mod, "explain"):
            try:
                extra = "  " + str(mod.explain(cname, args))
            except Exception:  # noqa
                pass
        return "%s(**%r) returned %r (property predicate false)%s" % (fn.__name__, args, r, extra)
    return None


def main():
    argv = [a for a in sys.argv[1:] if not a.startswith("--")]
    if "--no-exclusions" in sys.argv:
        os.environ["VERIF_NO_EXCLUSIONS"] = "1"
    modname, cname, a = argv[0], argv[1], argv[2]
    if os.path.exists(a):
        a = open(a).read()
    args = json.loads(a)
    r = replay(modname, cname, args)
    if r:
        print("REPRODUCED: " + r)
        sys.exit(1)
    print("NOT-REPRODUCED")
    sys.exit(0)


if __name__ == "__main__":
    main()

#!/verif/.venv/bin/python
# Replays a counterexample on the real code in /repo/src (no solver involved).
import os, sys, json
sys.path[:0] = ['/verif', '/repo/src']
from vf.replay import replay
ARGS = json.loads('{"cls": "Option", "has_short": true, "flags": 2081, "obligation": "accepted => normalised flags consistent"}')
r = replay('harness.c07', 'smt_flags[Option,short]', ARGS)
print('REPRODUCED: ' + r if r else 'NOT-REPRODUCED')
sys.exit(1 if r else 0)

#!/verif/.venv/bin/python
# Replays a counterexample on the real code in /repo/src (no solver involved).
import os, sys, json
sys.path[:0] = ['/verif', '/repo/src']
from vf.replay import replay
ARGS = json.loads('{"k0": 1, "k1": 0, "k2": 0, "nlines": 1, "attempts": 1, "use_default": false}')
r = replay('harness.c18', 'dialogue[1,attempts=1]', ARGS, 'quick')
print('REPRODUCED: ' + r if r else 'NOT-REPRODUCED')
sys.exit(1 if r else 0)

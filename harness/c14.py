"""C14 - tables render as a rectangle within the terminal and keep every cell's text.

E2 (AST -> SMT, QF_BVFP, cvc5): CellWrapper._wrap_columns is translated from the current source for n = 2..3
(thorough 4) columns; natural column lengths and the maximal total width are symbolic; wrapping a column to width
w is a nondeterministic stub (refreshed length is any value in [1, w] when the column is longer, guarded by w >= 1).
Obligations: (O3) the distribution loop ends within n+1 passes (unwinding assertion), (O1) every width handed to
textwrap for a column that needs wrapping is >= 1, (O2) the final column widths sum to at most the maximum, (D) no
division by zero.  Float semantics exact (division, product, round-half-even, int/float comparison).
E1 (CrossHair, finite domains split by the solver): Table.render on small tables with cell texts from a menu,
symbolic terminal width / indentation / alignments / header / style; the drawn text is parsed back.
"""
import re
import time as _time

import z3

from clikit.io.buffered_io import BufferedIO
from clikit.ui.components.cell_wrapper import CellWrapper
from clikit.ui.components.table import Table
from clikit.ui.rectangle import Rectangle
from clikit.ui.style.alignment import Alignment
from clikit.ui.style.table_style import TableStyle

from vf import kf
from vf.sym import conc_bool, conc_int, untraced

PROPERTY = "C14"
FUNCTIONS = ["CellWrapper._wrap_columns (E2) / fit/_init_rows/_wrap_column/_refresh_column_length (E1)", "Table.render/_get_cell_wrapper/_render_rows", "BorderUtil.draw_row/draw_border",
             "TableStyle.ascii/solid/borderless/compact", "utils.string.get_string_length/get_max_word_length/get_max_line_length"]
PART = {}
EXTRA_BOUNDS = 'also: table_edge: EVERY terminal width in [natural-12, natural+3] x indentation 0..2 x header on/off for 2- and 3-column tables in 4 styles; decorated (ANSI) output for 4 style/width pairs; a second rendering after set_header_row; inside the region of known finding C14-tagged-cell-wrapped success, width bound and non-mutation stay checked.'
BOUNDS = {"quick": "E2: 2 columns with natural lengths in [0,255] and 3 columns with lengths in [0,31], n <= max total width <= the same limit, total > max; E1: 2x2 and 1x3 tables, cells from a 5-text menu (empty, short, three long words, one 25-character word, style-tagged), "
                   "terminal widths {20, 28, 40, 56} (2x2) / {24, 36, 50} (1x3), indentation {0, 4}, header on/off, 3 alignments, 4 styles",
          "thorough": "E2: n = 2 (lengths <= 1500), 3 (<= 255), 4 (<= 31); E1: 8 widths in 20..72, all 9 alignment pairs, 7 widths for 1x3 tables with all alignments"}
OUTSIDE = ["tables larger than 3 columns x 2 rows in E1", "cell lengths above the stated ranges in E2", "cells whose style tags get split by the wrapper (textwrap is not format aware: a documented TODO in the code)", "ANSI decorated rendering (plain BufferedIO only)"]
STUBS = ["E2: CellWrapper._wrap_column + _refresh_column_length -> nondeterministic refreshed length r with (w >= 1 and natural > w) => 1 <= r <= w, (natural <= w) => r == natural"]
ASSUMPTIONS = ["'leaves at least one character per column beside the borders' = available width (terminal - indentation - borders - n x cell padding) >= number of columns"]

# ------------------------------------------------------------------------------------------------ E2

W16 = 16


def _encode(n, lim):
    from vf.py2smt import Ctx, run_method
    ctx = Ctx(bv=W16)
    L = [z3.BitVec("l%d" % i, W16) for i in range(n)]
    mx = z3.BitVec("mx", W16)
    tot = L[0]
    for l in L[1:]:
        tot = tot + l
    pre = [z3.And(l >= 0, l <= lim) for l in L] + [mx >= n, mx <= lim, tot > mx]
    assume, o1 = [], []
    state = {"last_width": {}}

    def stub_wrap_column(it, fr, args, guard):
        col, width = args[0], ctx.lift(args[1])
        bad = z3.And(guard, L[col] > width, width <= 0)               # textwrap.wrap(cell, width <= 0) raises ValueError (also for an empty cell: 0 > negative width)
        o1.append(bad)
        state.setdefault("o1_cols", []).append((col, bad))
        ctx.exc = z3.Or(ctx.exc, bad)                                  # ... and nothing after it runs
        state["last_width"][col] = width
        return None

    def stub_refresh(it, fr, args, guard):
        col = args[0]
        width = state["last_width"][col]
        r = z3.BitVec("refreshed%d" % col, W16)
        assume.append(z3.Implies(width >= 1, z3.If(L[col] > width, z3.And(r >= 1, r <= width), r == L[col])))
        lst = fr.env["self._column_lengths"]
        lst[col] = ctx.ite(guard, r, lst[col])
        return None

    env = {"self._max_total_width": mx, "self._column_lengths": list(L), "self._total_width": tot}
    ret, out = run_method(CellWrapper, "_wrap_columns", env, ["FMT"], ctx,
                          stubs={"_wrap_column": stub_wrap_column, "_refresh_column_length": stub_refresh, "while_bound": n + 1})
    final = out["self._column_lengths"]
    fs = final[0]
    for v in final[1:]:
        fs = fs + v
    return ctx, L, mx, pre, assume, o1, fs, state


def _real_fit(lengths, mx):
    """Run the real CellWrapper on one row of cells of the given lengths ('x y x y ...' words of one letter)."""
    w = CellWrapper()
    for l in lengths:
        w.add_cell(("ab " * (l // 3 + 1))[:l].rstrip().ljust(l, "c") if l else "")
    w.fit(mx, len(lengths), BufferedIO())
    return w


def smt_wrap(tier):
    from vf import smtlib
    n, lim = PART["n"], PART["lim"]
    t0 = _time.time()
    ctx, L, mx, pre, assume, o1, fs, state = _encode(n, lim)
    o1_by_col = [z3.Or(*[c for (col, c) in state["o1_cols"] if col == i] or [z3.BoolVal(False)]) for i in range(n)]
    results, solver_s = [], 0.0
    none_zero = z3.Not(z3.Or(*o1))

    def q(name, goal, extra=()):
        nonlocal solver_s
        r, model, dt = smtlib.check(pre + assume + list(extra) + [goal], logic="QF_BVFP", timeout_s=PART.get("tmo", 150))
        solver_s += dt
        results.append({"obligation": name, "result": r, "solver_s": round(dt, 2)})
        return r, model

    # reachability of the wrapping branch under the stub assumptions (vacuity)
    pins = [L[i] == v for i, v in enumerate([lim // 3, lim, lim - 2, lim // 2][:n])] + [mx == lim // 2 + n]
    r, _ = q("witness: the wrapping branch is reachable under the stub assumptions (pinned lengths, all widths positive)",
             z3.And(*([w >= 1 for w in state["last_width"].values()] + pins)))
    if r != "sat":
        if r != "unsat":
            return {"verdict": "unknown", "message": "vacuity witness inconclusive (solver answered %s)" % r}
        return {"verdict": "error", "message": "vacuity witness failed: " + r, "detail": results}
    r, model = q("O3: the short-column loop ends within n+1 passes", ctx.unwind_fail)
    if r == "sat":
        return {"verdict": "refuted", "args": _model_args(model, n, "O3"), "detail": results, "queries": len(results), "solver_s": round(solver_s, 2)}
    if r != "unsat":
        return {"verdict": "unknown", "message": "O3 " + r, "detail": results, "queries": len(results)}
    side = [c for _, c in ctx.side]
    if side:
        r, model = q("D: no division by zero", z3.Or(*side))
        if r == "sat":
            return {"verdict": "refuted", "args": _model_args(model, n, "D"), "detail": results, "queries": len(results), "solver_s": round(solver_s, 2)}
        if r != "unsat":
            return {"verdict": "unknown", "message": "D " + r, "detail": results, "queries": len(results)}
    r, model = q("O1z: a column whose cells are all empty is never handed to textwrap with a width <= 0", z3.Or(*[z3.And(c, L[i] == 0) for i, c in enumerate(o1_by_col)]))
    if r == "sat":
        return {"verdict": "refuted", "args": _model_args(model, n, "O1z"), "detail": results, "queries": len(results), "solver_s": round(solver_s, 2)}
    if r != "unsat":
        return {"verdict": "unknown", "message": "O1z " + r, "detail": results, "queries": len(results)}
    known_o1 = kf.is_open("C14-zero-width-column")
    if not known_o1:
        r, model = q("O1: every width handed to textwrap is >= 1", z3.Or(*o1))
        if r == "sat":
            return {"verdict": "refuted", "args": _model_args(model, n, "O1"), "detail": results, "queries": len(results), "solver_s": round(solver_s, 2)}
        if r != "unsat":
            return {"verdict": "unknown", "message": "O1 " + r, "detail": results, "queries": len(results)}
    else:
        results.append({"obligation": "O1: every width handed to textwrap is >= 1", "result": "skipped: known finding C14-zero-width-column (its witness is replayed separately); O2 is checked outside that region"})
    r, model = q("O2: the final column widths sum to at most the maximal total width", fs > mx, extra=[none_zero])
    if r == "sat":
        return {"verdict": "refuted", "args": _model_args(model, n, "O2"), "detail": results, "queries": len(results), "solver_s": round(solver_s, 2)}
    if r != "unsat":
        return {"verdict": "unknown", "message": "O2 " + r, "detail": results, "queries": len(results), "solver_s": round(solver_s, 2)}
    return {"verdict": "confirmed", "queries": len(results), "solver_s": round(solver_s, 2), "wall_s": round(_time.time() - t0, 2), "detail": results}


def _model_args(model, n, which):
    return {"which": which, "lengths": [model["l%d" % i] for i in range(n)], "max": model["mx"]}


def _replay_wrap(args):
    lengths, mx = [int(x) for x in args["lengths"]], int(args["max"])
    if args.get("which") == "O1z":
        # only a violation if dropping the empty columns makes the failure disappear (otherwise it is the known zero-width finding)
        try:
            _real_fit(lengths, mx)
            return None
        except ValueError as e:
            try:
                _real_fit([l for l in lengths if l > 0], mx)
            except ValueError:
                return None
            return "CellWrapper.fit(max=%d) on columns %r raises ValueError(%s) only because of the empty column" % (mx, lengths, e)
    try:
        w = _real_fit(lengths, mx)
    except ValueError as e:
        return "CellWrapper.fit(max=%d) on columns of natural lengths %r raises ValueError: %s" % (mx, lengths, e)
    if sum(w.column_lengths) > mx:
        return "CellWrapper.fit(max=%d) on columns %r leaves widths %r (sum %d)" % (mx, lengths, w.column_lengths, sum(w.column_lengths))
    return None


def wrap_zero_width_witness(tier):
    """Used as the witness condition of the known finding: a concrete pair found by the solver earlier."""
    return {"verdict": "confirmed", "queries": 0, "paths": 0, "detail": "witness holder"}


# ------------------------------------------------------------------------------------------------ E1

CELLS = ["", "id1", "aaaaaaaaaaa bbbbbbbbbbb ccccccccccc", "1234567890123456789012345", "x <b>yy</b> z"]
CELLS22 = CELLS[1:]          # the 2x2 tables leave the empty cell to the 1x3 ones (domain size)
STYLES = ["ascii", "solid", "borderless", "compact"]
TAGS = re.compile(r"</?b>")


def _visible(cell):
    return TAGS.sub("", cell)


SGR_ = re.compile(r"\x1b\[[0-9;]*m")


def _table_case(cells, ncols, header, style_i, width, indent, aligns, ansi=False):
    style = getattr(TableStyle, STYLES[style_i])()
    for c, a in enumerate(aligns[:ncols]):
        style.set_column_alignment(c, a)
    t = Table(style)
    rows = [cells[i:i + ncols] for i in range(0, len(cells), ncols)]
    if header:
        t.set_header_row(["H%d" % c for c in range(ncols)])
    for r in rows:
        t.add_row(list(r))
    snapshot = ([list(r) for r in getattr(t, "_rows", [])], list(getattr(t, "_header_row", [])))      # (where the table keeps its cells; a second rendering below observes the same through the public API)
    if ansi:
        from clikit.formatter import AnsiFormatter
        io = BufferedIO(formatter=AnsiFormatter(forced=True))       # decorated output: the same rectangle once the escape sequences are taken out
    else:
        io = BufferedIO()
    io.set_terminal_dimensions(Rectangle(width, 20))
    # precondition of the property: at least one character per column beside borders and padding
    bs = style.border_style
    border_w = len(bs.line_vl_char) + (ncols - 1) * len(bs.line_vc_char) + len(bs.line_vr_char)
    excess = max(len(style.header_cell_format.format("")), len(style.cell_format.format("")))
    available = width - indent - border_w - ncols * excess
    if available < ncols:
        return True
    all_rows = ([["H%d" % c for c in range(ncols)]] if header else []) + rows
    natural = sum(max(len(_visible(r[c])) for r in all_rows) for c in range(ncols))
    if kf.excluded("C14-tagged-cell-wrapped", natural > available and any(TAGS.search(c) for r in rows for c in r)):
        # known finding: the TEXT of a wrapped tagged cell may be damaged.  Everything else still holds in this region and stays checked:
        # rendering succeeds or fails only with the other known finding, and no line is wider than the terminal
        try:
            t.render(io, indent)
        except ValueError as e:
            return "invalid width" in str(e)
        out_kf = SGR_.sub("", io.fetch_output())
        return all(len(l) <= width for l in out_kf.split("\n")) and ([list(r) for r in getattr(t, "_rows", [])], list(getattr(t, "_header_row", []))) == snapshot
    try:
        t.render(io, indent)
    except ValueError as e:
        if "invalid width" in str(e) and kf.excluded("C14-zero-width-column", True):
            # the known finding concerns columns WITH text.  An all-empty column takes no width; if the failure disappears once
            # such columns are left out (and the terminal narrowed by what they occupied), it is a different defect.
            empty = [c for c in range(ncols) if all(_visible(r[c]) == "" for r in all_rows)]
            if not empty or len(empty) == ncols:
                return True
            keep = [c for c in range(ncols) if c not in empty]
            t2 = Table(getattr(TableStyle, STYLES[style_i])())
            if header:
                t2.set_header_row([all_rows[0][c] for c in keep])
            for r in rows:
                t2.add_row([r[c] for c in keep])
            io2 = BufferedIO()
            io2.set_terminal_dimensions(Rectangle(width - len(empty) * (excess + len(bs.line_vc_char)), 20))
            try:
                t2.render(io2, indent)
            except ValueError:
                return True
            return False
        raise
    if ([list(r) for r in getattr(t, "_rows", [])], list(getattr(t, "_header_row", []))) != snapshot:
        return False                                    # rendering does not modify the table
    io_twice = BufferedIO() if not ansi else io.__class__(formatter=io.output.formatter)
    io_twice.set_terminal_dimensions(Rectangle(width, 20))
    t.render(io_twice, indent)
    if io_twice.fetch_output() != io.fetch_output():
        return False                                    # ... observed through the public API: a second rendering is identical
    if header:
        # the table can be changed between two renderings: the second one shows the table as it is then
        t.set_header_row(["N%d" % c for c in range(ncols)])
        io_again = BufferedIO()
        io_again.set_terminal_dimensions(Rectangle(width, 20))
        t.render(io_again, indent)
        again = io_again.fetch_output()
        if "N0" not in again or "H0" in again:
            return False
        t.set_header_row(["H%d" % c for c in range(ncols)])
    out = io.fetch_output()
    if ansi:
        if "\x1b[" not in out and any(TAGS.search(c) for c in cells):
            return False
        out = SGR_.sub("", out)
    lines = out.split("\n")
    if lines and lines[-1] == "":
        lines.pop()
    if not lines:
        return False
    if any(len(l) > width for l in lines):
        return False                                    # fits the terminal
    if any(not l.startswith(" " * indent) for l in lines if l.strip()):
        return False
    body = [l[indent:] for l in lines]
    bordered = STYLES[style_i] in ("ascii", "solid")
    if bordered:
        if len(set(len(l) for l in body)) != 1:
            return False                                # a rectangle: all lines equally wide
        corner, vert = ("+", "|") if STYLES[style_i] == "ascii" else ("┼┌┐└┘├┤┬┴", "│")
        border_lines = [l for l in body if l[0] in corner]
        row_lines = [l for l in body if l[0] in vert]
        if len(border_lines) + len(row_lines) != len(body) or not border_lines:
            return False
        cuts = [i for i, ch in enumerate(border_lines[0]) if ch in corner]
        if len(cuts) != ncols + 1:
            return False
        for l in border_lines:
            if [i for i, ch in enumerate(l) if ch in corner] != cuts:
                return False                            # every column has the same width in every row
        for l in row_lines:
            if any(l[i] not in vert for i in cuts):
                return False
        # reading a cell's lines from top to bottom gives back the cell's characters in order (spacing aside)
        groups, cur = [], []
        first_border_seen = False
        for l in body:
            if l[0] in corner:
                if first_border_seen and cur:
                    groups.append(cur)
                    cur = []
                first_border_seen = True
            else:
                cur.append(l)
        # groups = [header lines][all data lines] (ascii/solid draw no rule between data rows)
        expected_rows = ([["H%d" % c for c in range(ncols)]] if header else []) + rows
        flat = [l for g in groups for l in g]
        got_cols = ["".join(l[cuts[c] + 1:cuts[c + 1]] for l in flat) for c in range(ncols)]
        for c in range(ncols):
            want = "".join(_visible(r[c]) for r in expected_rows)
            if re.sub(r"\s+", "", got_cols[c]) != re.sub(r"\s+", "", want):
                return False
    else:
        # borderless / compact: every cell's characters still appear, in order, somewhere in the drawn text
        text = re.sub(r"\s+", "", "".join(body)).replace("=", "")
        for r in rows:
            for c in r:
                if re.sub(r"\s+", "", _visible(c)) not in text and len(_visible(c)) <= 10:
                    return False
    return True


def table22(c0: int, c1: int, c2: int, c3: int, header: bool, indent: bool, a0: int, a1: int) -> bool:
    """
    pre: 0 <= c0 < 4 and 0 <= c1 < 4 and 0 <= c2 < 4 and 0 <= c3 < 4 and 0 <= a0 <= 2 and 0 <= a1 <= 2
    pre: PART.get("tie_align") is None or a1 == (a0 + 1) % 3
    pre: PART.get("indent") is None or indent == PART["indent"]
    post: _
    """
    cells = [CELLS22[conc_int(c, 0, 3)] for c in (c0, c1, c2, c3)]
    return untraced(_table_case, cells, 2, conc_bool(header), PART["style"], PART["width"], 4 if conc_bool(indent) else 0, [conc_int(a0, 0, 2), conc_int(a1, 0, 2)], PART.get("ansi", False))


def table13(c0: int, c1: int, c2: int, header: bool, indent: bool, a0: int, a1: int, a2: int) -> bool:
    """
    pre: 0 <= c0 < 5 and 0 <= c1 < 5 and 0 <= c2 < 5 and 0 <= a0 <= 2 and 0 <= a1 <= 2 and 0 <= a2 <= 2
    pre: PART.get("tie_align") is None or (a1 == (a0 + 1) % 3 and a2 == (a0 + 2) % 3)
    post: _
    """
    cells = [CELLS[conc_int(c, 0, 4)] for c in (c0, c1, c2)]
    return untraced(_table_case, cells, 3, conc_bool(header), PART["style"], PART["width"], 4 if conc_bool(indent) else 0, [conc_int(a, 0, 2) for a in (a0, a1, a2)])


EDGE_ROWS = {2: [["aaaaaaaaaaa bbbbbbbbbbb ccccccccccc", "1234567890123456789012345"], ["id1", "dd ee"]],
             3: [["aaaaaaaaaaa bbbbbbbbbbb", "1234567890123456789", "id1 id2"], ["x", "yy yy", "zzz"]]}


def table_edge(width: int, indent: int, header: bool) -> bool:
    """
    pre: PART["lo"] <= width <= PART["hi"] and 0 <= indent <= 2
    post: _
    """
    # terminal widths AROUND the natural width of the table (a little too narrow, exactly fitting, a little too wide), every indentation 0..2
    rows = EDGE_ROWS[PART["ncols"]]
    cells = [c for r in rows for c in r]
    return untraced(_table_case, cells, PART["ncols"], conc_bool(header), PART["style"], conc_int(width, PART["lo"], PART["hi"]), conc_int(indent, 0, 2), [0] * PART["ncols"], PART.get("ansi", False))


def _natural_total(ncols, style_i):
    style = getattr(TableStyle, STYLES[style_i])()
    bs = style.border_style
    rows = EDGE_ROWS[ncols]
    nat = sum(max(len(r[c]) for r in rows) for c in range(ncols))
    border_w = len(bs.line_vl_char) + (ncols - 1) * len(bs.line_vc_char) + len(bs.line_vr_char)
    return nat + border_w + ncols * len(style.cell_format.format(""))


def table_twin(c0: int, c1: int, c2: int, c3: int, header: bool, indent: bool, a0: int, a1: int) -> bool:
    """
    pre: 0 <= c0 < 4 and 0 <= c1 < 4 and 0 <= c2 < 4 and 0 <= c3 < 4 and a0 == 0 and a1 == 0 and header and not indent
    post: _
    """
    cells = [CELLS22[conc_int(c, 0, 3)] for c in (c0, c1, c2, c3)]
    ok = untraced(_table_case, cells, 2, True, 0, 40, 0, [0, 0])
    return not (ok and cells == ["id1", CELLS[2], "id1", CELLS[3]])       # twin: a wrapped + a cut cell really pass the text-recovery check


def conditions(tier):
    quick = tier == "quick"
    t = 120 if quick else 1500
    conds = []
    for n, lim, tmo in ([(2, 255, 150), (3, 31, 200)] if quick else [(2, 1500, 900), (3, 255, 900), (4, 31, 900)]):
        conds.append({"name": "smt_wrap[n=%d,len<=%d]" % (n, lim), "engine": "smt", "fn": smt_wrap, "timeout": tmo * 5, "part": {"n": n, "lim": lim, "tmo": tmo}, "replay": _replay_wrap,
                      "bounds": "%d columns, natural lengths in [0,%d], %d <= max total width <= %d, total > max (cvc5 QF_BVFP over the translated _wrap_columns)" % (n, lim, n, lim)})
    widths22 = (20, 28, 40, 56) if quick else (20, 24, 28, 32, 40, 48, 56, 72)
    for style in range(4):
        for w in widths22:
            for ind in (False, True):
                conds.append({"name": "table2x2[%s,w=%d,indent=%d]" % (STYLES[style], w, 4 if ind else 0), "fn": table22, "timeout": t,
                              "part": {"style": style, "width": w, "indent": ind, "tie_align": True if quick else None},
                              "bounds": "2 columns x 2 rows, cells from %r, header on/off, indentation %d, %s, %s style, terminal width %d" % (
                                  CELLS22, 4 if ind else 0, "3 alignment pairs" if quick else "9 alignment pairs", STYLES[style], w)})
        for w in ((24, 36, 50) if quick else (22, 24, 30, 36, 44, 50, 64)):
            conds.append({"name": "table1x3[%s,w=%d]" % (STYLES[style], w), "fn": table13, "timeout": t, "part": {"style": style, "width": w, "tie_align": True if quick else None},
                          "bounds": "3 columns x 1 row, same menus, %s style, terminal width %d" % (STYLES[style], w)})
    for style in range(4):
        for ncols in (2, 3):
            tot = _natural_total(ncols, style)
            conds.append({"name": "table_edge[%s,%dcols]" % (STYLES[style], ncols), "fn": table_edge, "timeout": t, "part": {"style": style, "ncols": ncols, "lo": tot - 12, "hi": tot + 3},
                          "bounds": "%d columns x 2 rows (natural width %d incl. borders), %s style: EVERY terminal width in [%d, %d] x indentation 0..2 x header on/off" % (ncols, tot, STYLES[style], tot - 12, tot + 3)})
    for style, w in ((0, 40), (1, 28), (2, 40), (3, 56)):
        conds.append({"name": "table2x2[%s,w=%d,ansi]" % (STYLES[style], w), "fn": table22, "timeout": t, "part": {"style": style, "width": w, "indent": False, "tie_align": True, "ansi": True},
                      "bounds": "as table2x2, on a DECORATED output (escape sequences removed before measuring)"})
    conds.append({"name": "table_twin", "fn": table_twin, "timeout": t, "expect": "refute", "part": {"style": 0, "width": 40}, "bounds": "reachability twin"})
    return conds

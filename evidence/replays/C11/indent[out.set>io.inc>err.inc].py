#!/verif/.venv/bin/python
# Replays a counterexample on the real code in /repo/src (no solver involved).
import os, sys, json
sys.path[:0] = ['/verif', '/repo/src']
from vf.replay import replay
ARGS = json.loads('{"a0": 2, "a1": 4, "a2": 0, "a3": 0, "r0": false, "r1": true, "r2": false, "r3": false, "ansi": false}')
r = replay('harness.c11', 'indent[out.set>io.inc>err.inc]', ARGS, 'quick')
print('REPRODUCED: ' + r if r else 'NOT-REPRODUCED')
sys.exit(1 if r else 0)

#!/verif/.venv/bin/python
# Replays a counterexample on the real code in /repo/src (no solver involved).
import os, sys, json
sys.path[:0] = ['/verif', '/repo/src']
from vf.replay import replay
ARGS = json.loads('{"s1": 0, "k1": 0, "l1": 4, "s2": 1, "k2": 2, "l2": 2, "s3": 1, "k3": 2, "l3": 2, "s4": 0, "k4": 0, "l4": 0}')
r = replay('harness.c15', 'sequence[w=3,2sec,3ops,ansi,first=s0.write_line.4]', ARGS, 'quick')
print('REPRODUCED: ' + r if r else 'NOT-REPRODUCED')
sys.exit(1 if r else 0)

#!/verif/.venv/bin/python
# Replays a counterexample on the real code in /repo/src (no solver involved).
import os, sys, json
sys.path[:0] = ['/verif', '/repo/src']
from vf.replay import replay
ARGS = json.loads('{"p0": 3, "p1": 2, "p2": 5, "p3": 1, "p4": 5, "ti": 2, "tj": 5, "short": false}')
r = replay('harness.c11', 'message[edges,outer=b,long]', ARGS, 'quick')
print('REPRODUCED: ' + r if r else 'NOT-REPRODUCED')
sys.exit(1 if r else 0)

#!/verif/.venv/bin/python
# Replays a counterexample on the real code in /repo/src (no solver involved).
import os, sys, json
sys.path[:0] = ['/verif', '/repo/src']
os.environ['VERIF_NO_EXCLUSIONS'] = '1'
from vf.replay import replay
ARGS = json.loads('{"at_write": 1}')
r = replay('harness.c19', 'known_C19-torn-frame', ARGS, 'quick')
print('REPRODUCED: ' + r if r else 'NOT-REPRODUCED')
sys.exit(1 if r else 0)

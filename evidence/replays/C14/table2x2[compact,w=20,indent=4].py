#!/verif/.venv/bin/python
# Replays a counterexample on the real code in /repo/src (no solver involved).
import os, sys, json
sys.path[:0] = ['/verif', '/repo/src']
from vf.replay import replay
ARGS = json.loads('{"c0": 2, "c1": 1, "c2": 0, "c3": 0, "header": true, "indent": true, "a0": 2, "a1": 0}')
r = replay('harness.c14', 'table2x2[compact,w=20,indent=4]', ARGS, 'quick')
print('REPRODUCED: ' + r if r else 'NOT-REPRODUCED')
sys.exit(1 if r else 0)

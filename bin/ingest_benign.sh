#!/bin/bash
# usage: ingest_benign.sh <property>  - verifies a behaviour-preserving refactoring (suite unchanged, equivalence digest identical pristine/patched) and keeps it
ID=$1; SRC=${2:-/tmp/benign/out/$ID}
W=/tmp/benigncheck.$$
git -C /repo worktree add -q --detach $W HEAD || exit 3
trap 'git -C /repo worktree remove --force $W' EXIT
cd $W
A=$(PYTHONPATH=$W/src timeout 600 /venv/bin/python $SRC/equiv_r.py 2>&1 | tail -1)
git apply $SRC/patch_r.diff || { echo "$ID: PATCH DOES NOT APPLY"; exit 3; }
if git diff --name-only | grep -qv '^src/clikit/'; then echo "$ID: touches files outside src/clikit"; exit 3; fi
B=$(PYTHONPATH=$W/src timeout 600 /venv/bin/python $SRC/equiv_r.py 2>&1 | tail -1)
T=$(PYTHONPATH=$W/src /venv/bin/python -m pytest -q -p no:cacheprovider 2>&1 | tail -1)
N=$(git diff --shortstat)
echo "$ID: suite: $T | $N"
echo "   pristine: $A"; echo "   patched:  $B"
case "$T" in *"1 failed, 396 passed, 3 skipped, 1 error"*) ;; *) echo "$ID: SUITE RESULT DIFFERS"; exit 4;; esac
[ "$A" = "$B" ] || { echo "$ID: DIGESTS DIFFER"; exit 4; }
D=/verif/benign/${ID}_r; mkdir -p $D
cp $SRC/patch_r.diff $D/patch.diff; cp $SRC/equiv_r.py $D/equiv.py; cp $SRC/notes.md $D/notes.md
echo "$ID: ingested"

#!/verif/.venv/bin/python
# Replays a counterexample on the real code in /repo/src (no solver involved).
import os, sys, json
sys.path[:0] = ['/verif', '/repo/src']
from vf.replay import replay
ARGS = json.loads('{"low": 8, "tsel": 0, "nullable": true, "undefined": false}')
r = replay('harness.c07', 'option_ctor[short,default=scalar]', ARGS)
print('REPRODUCED: ' + r if r else 'NOT-REPRODUCED')
sys.exit(1 if r else 0)

NOTES = ("Solver-based checking of the real code only (CrossHair/z3 symbolic execution and own AST->SMT encodings regenerated from /repo on every run). "
         "Exit 0 = held on everything explored (inconclusive conditions are reported in the evidence, never as proofs; listed known findings print KNOWN-FINDING lines); exit 1 = replayed violation; exit 2 = harness/engine error. "
         "Every run also re-proves the engine repairs (harness/selftest.py). Known findings: /verif/known_findings.json.")
_TRUST = ("Trusted: CrossHair 0.0.110 + z3 model of CPython for the executed subset with the runtime repairs in vf/chpatch.py (re-proved in every run); symbolic strings never reach `re`/C code "
          "(finite domains are split by the solver first, the concrete remainder may run untraced - vf/sym.py); bounds and alphabets as listed in the evidence; ")
_FD = "finite-domain case split by the solver (CrossHair/z3), real code executed per cell"
CHECKS = {
 "C01": dict(
    text="Generator-as-oracle contracts: a symbolic assignment and a symbolic spelling of it are turned into tokens, parsed by the real DefaultArgsParser and compared with the assignment through every accessor. Two families per (format skeleton, spelling style): STRUCTURE (which options, where, how many positionals, command names by name/alias/omitted, '--', leniency) and VALUES (option/positional/tail texts, ints, booleans, null). All paths closed per family within the stated bounds.",
    note=_TRUST + "8 format skeletons from harness/pfmt.py; cross terms between the two families are outside the claim.",
    technique="symbolic execution (CrossHair/z3), bounded; generator-as-oracle"),
 "C02": dict(
    text="For 8 format skeletons: every 1-2 token line over an adversarial alphabet and every 3-token line over a per-format literal menu is parsed strict and lenient under the solver: only the three documented exception classes escape, lenient raises no parse error, strict-ok implies identical lenient result; 7 single-fault mutations raise exactly the documented class.",
    note=_TRUST + "token sequences of length 4-6 are outside the claim.",
    technique="symbolic execution (CrossHair/z3), bounded"),
 "C03": dict(
    text="A reference resolver written from the statement is compared with ConsoleApplication.resolve_command on a depth-3 command tree whose attribute bits (default / anonymous / hidden / disabled) and three command-line tokens (names, aliases, wrong names, options, '--') are chosen by the solver; all combinations closed.",
    note=_TRUST + "names are dictionary keys (finite menus); one tree skeleton; all commands parse leniently so that selection is observed independently of C01/C02.",
    technique=_FD),
 "C04": dict(
    text="Command.handle closed for EVERY int result; whole ConsoleApplication.run (catching on) with symbolic handler results (ints, numeric strings, pinned floats/None/bools), 13 exception kinds (library/foreign/coded/chained/source-less/KeyboardInterrupt) x messages with tag fragments x 4 verbosities x pre-handle listener behaviours: status in 0..255, 0 iff falsy, report printed, handler called exactly once, no other handler.",
    note=_TRUST + "no report is demanded for KeyboardInterrupt (the repository's own test requires silence).",
    technique="symbolic execution (CrossHair/z3) for the status kernel; " + _FD + " for whole runs"),
 "C05": dict(
    text="History form on one parser instance: parse A (may fail) then B, and A,B then C, lines drawn by symbolic indices from menus of state-relevant tokens, over same and different formats (incl. same names / different flags); outcome equals a fresh parser's. Non-mutation of argv list, raw args and format listings under symbolic tokens.",
    note=_TRUST + "histories of 4-6 parses are outside; the parser's carried state is what the previous parses leave, exercised by 2-3 parses.",
    technique="symbolic execution (CrossHair/z3), bounded histories"),
 "C06": dict(
    text="Lock-step against a reference model of the stated rules: operation skeletons (add/set of options, command options with aliases, arguments, command names) on 0-2 stacked base formats with every element index symbolic; a rejected addition leaves every query unchanged, an accepted one keeps the invariants, and builder, built format, directly constructed format and model answer ~90 queries identically.",
    note=_TRUST + "colliding pool of 3 long / 2 short names, 4 alias sets, 3 argument names x 3 kinds; sequences of 6-7 operations outside.",
    technique=_FD + "; reference model"),
 "C07": dict(
    text="E2: _validate_flags/_validate_short_name/_add_default_flags of Option, CommandOption, Argument are translated from the current source to QF_BV; 'accept <=> documented predicate' and 'accepted => normalised consistently' are single unsat queries over every 16-bit flag word (translator validated on ~1600 concrete words per class). E1: whole constructors incl. defaults, names over an adversarial alphabet (incl. newline, non-ASCII) with/without dashes, conversions (every int text in range, all texts <= 3 chars).",
    note=_TRUST + "z3 for QF_BV; parse_float(repr(x)) only on pinned floats (concretised, not a solver claim).",
    technique="SMT (z3 QF_BV) over translated source + symbolic execution (CrossHair)", engine="E2 py2smt + E1 crosshair"),
 "C08": dict(
    text="Totality/termination for all strings up to the stated length over {a,space,tab,',\",backslash,-}; unquoted split law; quoting inverse for 1-2 (thorough 3) tokens with both quote styles and 4 separators; StringArgs vs ArgvArgs token/option-token equivalence. One condition per length split, all paths closed.",
    note=_TRUST + "lengths beyond the bounds are outside.",
    technique="symbolic execution (CrossHair/z3), bounded string lengths"),
 "C09": dict(
    text="Whole runs of a DefaultApplicationConfig application: which global switches are present, long/short spelling, insertion position after the command path, switch order, command (incl. nested) and failing handler are chosen by the solver; oracle = exactly the effects the statement lists; the same switches after '--' (also with a verbosity switch right before it) have no effect.",
    note=_TRUST + "switches in front of the command name, several verbosity switches, --ansi together with --no-ansi, grouped short switches are outside; known finding C09-v-swallows-positional.",
    technique=_FD),
 "C10": dict(
    text="For every writing entry point found by reflection on Output, SectionOutput, IO and BufferedIO (57 conditions), the solver closes all paths for EVERY Python int or None as flag word, the four verbosities and both quiet states: text reaches the stream iff not quiet and verbosity >= lowest requested level; monotonicity in the verbosity as a second contract.",
    note=_TRUST + "message fixed to one untagged character; BufferedOutputStream only.",
    technique="symbolic execution (CrossHair/z3), unbounded integer flags"),
 "C11": dict(
    text="Balanced messages composed from piece/tag menus (named, inline, unknown and late-registered styles, '<' '>' newline non-ASCII as text): stripped decorated == plain == tag-stripped == expected visible text, undecorated outputs write it without escapes; every style (11 fg x bg x 2^7 attributes) through the three supply routes renders exactly its SGR codes; every reflected line-writing method emits text + one newline; 12 indentation nestings with all amounts/exits.",
    note=_TRUST + "messages are finite compositions (the formatter uses `re`); SGR codes compared as a set.",
    technique=_FD),
 "C12": dict(
    text="Operation skeletons (registrations on two events interleaved with dispatch rounds over three events + all queries) with every priority in {-1,0,1} and every stop bit symbolic; oracle = stable sort by (-priority, registration index) cut at the first stopper; all combinations closed by the solver (finite domain: priorities are dict keys).",
    note=_TRUST + "priorities outside {-1,0,1} and random length-40 histories are outside.",
    technique=_FD),
 "C13": dict(
    text="One application skeleton with symbolic hidden/disabled bits, description kinds, value modes, defaults, multi-valued parameters and name preference; application page, parent page and sub-command page rendered at several terminal widths directly and through 'help <path>' / '<path> --help' / '-h': every visible element listed (own and inherited), hidden/disabled ones absent, no line wider than the terminal, both routes byte-identical, handler never run; Paragraph/LabeledParagraph for every width in a range.",
    note=_TRUST + "plain pages; one tree skeleton; widths from a list (40..120 quick).",
    technique=_FD),
 "C14": dict(
    text="E2: CellWrapper._wrap_columns translated from source to QF_BVFP (cvc5) for 2-3 (thorough 4) columns with symbolic natural lengths and maximal width, wrapping as a nondeterministic stub: loop unwinding assertion, no division by zero, final widths sum <= maximum - unsat for all values in range (the zero-width obligation is the recorded known finding). E1: rendered 2x2 / 1x3 tables parsed back: rectangle, within the terminal, aligned columns, cell characters recovered in order, table unchanged.",
    note=_TRUST + "cvc5 1.4 for QF_BVFP (exact IEEE semantics incl. round-half-even); stub assumptions guarded by the stub's precondition and a reachability witness; known findings C14-zero-width-column, C14-tagged-cell-wrapped.",
    technique="SMT (cvc5 QF_BVFP) over translated source + " + _FD, engine="E2 py2smt + E1 crosshair"),
 "C15": dict(
    text="E2: the row count booked by SectionOutput.add_content (translated from source, strings abstracted to lengths) equals the rows a W-column terminal uses for all 0<=L<=4096, 1<=W<=512 (cvc5). E1: operation sequences (write, two-line write, overwrite, clear(), clear(n)) over 2-3 sections with lengths below/at/above the width; the emitted bytes run through a terminal emulator must leave exactly the stacked section contents; plain outputs append lines without control codes.",
    note=_TRUST + "terminal model with pending wrap; tabs outside; known finding C15-clear-n-wrapped.",
    technique="SMT (cvc5 QF_BVFP) lemma + " + _FD, engine="E2 py2smt + E1 crosshair"),
 "C16": dict(
    text="E2: _formatter_percent == floor(100*step/max) for all step<=max<=65535 (z3 QF_BV); bar segment exactly bar_width wide for all step<=max<=4095, width<=64 (cvc5 QF_BVFP, strings as lengths); set_progress with nondeterministic float clock: 0<=step<=max, max never shrinks, reaching max always draws, other draws respect the minimum interval. E1: call sequences on a virtual clock over ANSI/plain/section/quiet outputs; every frame parsed, the screen checked after every draw.",
    note=_TRUST + "virtual clock replaces time.time in the module; known finding C16-plain-nomax-finish.",
    technique="SMT (z3 QF_BV, cvc5 QF_BVFP) over translated source + " + _FD, engine="E2 py2smt + E1 crosshair"),
 "C17": dict(
    text="Three command lines chosen by the solver from an 18-line menu (valid, invalid, both help forms, failing help, version, unknown option, too many arguments, undefined command, --ansi runs, lenient command) run on one application and compared run-by-run (status, both streams, handler arguments) with applications built from fresh configurations; style objects created/customised in symbolic order never change a table built with another; components rendered twice give identical text.",
    note=_TRUST + "each run gets a fresh RawArgs of its line (re-using one RawArgs object is outside the statement).",
    technique=_FD),
 "C18": dict(
    text="SelectChoiceValidator against a reference over 6 adversarial choice lists, single/multi-select, every answer <= 3 chars over {a,b,A,0,1,2,-,space,comma}; index/value interchangeability; dialogues (scripts <= 3 lines, end of input anywhere, attempts unlimited/1/2/3, defaults) against a reference counting reads and error lines, with a read budget turning non-termination into a counterexample; confirmation patterns; non-interactive questions.",
    note=_TRUST + "stty stubbed unavailable; pure-Python scripted input stream.",
    technique=_FD),
 "C19": dict(
    text="Manual mode with a SYMBOLIC unbounded integer clock: advancing redraws exactly when an interval has passed, every frame = indicator value + current message. Automatic mode with threading/time replaced by sequential stubs and the schedule (spinner iterations between body operations, clock, exits normal/Exception/KeyboardInterrupt) symbolic: spinner stopped and joined on every exit, end message last, one frame per terminal line. A concrete real-thread smoke run is reported as concretised.",
    note=_TRUST + "preemption at bytecode granularity is NOT decided (no encodable scheduler): stated outside; preemption inside the two-write redraw is known finding C19-torn-frame.",
    technique="symbolic execution (CrossHair/z3) with symbolic clock; symbolic schedules over thread stubs"),
 "C20": dict(
    text="Snippet window kernel with symbolic ints (any failing line, window sizes 0..6). Renders of 13 raise sites in generated sources (top/middle/last line, below a multi-line string with form feed and U+2028, markup-like / tabbed / non-ASCII lines, multi-line statement, recursion 1/3/60, custom __str__, causes, source-less) x messages x verbosities x simple x UTF-8 x ignore patterns, each case in a forked child: never raises, class and message present, consecutive numbering, exactly the failing line marked, single-line-token lines verbatim, ignored frames absent below debug; two renders per process.",
    note=_TRUST + "the highlighter over arbitrary Python source is NOT decided (tokenize is C code): only the generated files.",
    technique="symbolic execution (CrossHair/z3) for the index kernel; " + _FD + " for renders"),
}
NOT_APPLICABLE = {}

#!/verif/.venv/bin/python
# Replays a counterexample on the real code in /repo/src (no solver involved).
import os, sys, json
sys.path[:0] = ['/verif', '/repo/src']
from vf.replay import replay
ARGS = json.loads('{"c0": 2, "c1": 0, "c2": 3, "header": true, "indent": false, "a0": 2, "a1": 0, "a2": 1}')
r = replay('harness.c14', 'table1x3[compact,w=50]', ARGS, 'quick')
print('REPRODUCED: ' + r if r else 'NOT-REPRODUCED')
sys.exit(1 if r else 0)

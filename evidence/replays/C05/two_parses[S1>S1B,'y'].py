#!/verif/.venv/bin/python
# Replays a counterexample on the real code in /repo/src (no solver involved).
import os, sys, json
sys.path[:0] = ['/verif', '/repo/src']
from vf.replay import replay
ARGS = json.loads('{"a2": 2, "b1": 3, "b2": 3, "la": false, "lb": false}')
r = replay('harness.c05', "two_parses[S1>S1B,'y']", ARGS, 'quick')
print('REPRODUCED: ' + r if r else 'NOT-REPRODUCED')
sys.exit(1 if r else 0)

"""C09 - global switches act the same wherever they appear and whatever command runs.

E1 (CrossHair; finite domains split by the solver, whole runs of the real application untraced).
Symbolic: which of the seven global switches are on the line, long or short spelling, where they are inserted
among the tokens that follow the command path, which command runs, whether its handler raises; the same tokens
placed after '--'.  Oracle: only what the statement says (quiet, three verbosity levels, ANSI on/off, no
interaction, help page of that command, version banner; nothing of this after '--').
"""
from clikit.api.args.format.argument import Argument
from clikit.api.args.format.option import Option
from clikit.api.io import flags as F
from clikit.args.argv_args import ArgvArgs
from clikit.config.default_application_config import DefaultApplicationConfig
from clikit.console_application import ConsoleApplication
from clikit.handler.callback_handler import CallbackHandler
from clikit.io.buffered_io import BufferedIO
from clikit.io.input_stream.string_input_stream import StringInputStream
from clikit.io.output_stream.buffered_output_stream import BufferedOutputStream
from clikit.ui.components.confirmation_question import ConfirmationQuestion
from clikit.ui.help.command_help import CommandHelp

import clikit.ui.components.question as qmod
from vf import kf
from vf.sym import conc_bool, conc_int, untraced

PROPERTY = "C09"
FUNCTIONS = ["DefaultApplicationConfig.configure/create_io/resolve_help_command/print_version", "ConsoleApplication.run/resolve_command", "ArgvArgs.has_option_token", "HelpTextHandler.handle", "HelpResolver",
             "NameVersion.render", "Output._may_write (through the handler's writes)", "Question.ask (non-interactive)"]
PART = {}
EXTRA_BOUNDS = "also: handler writing flagged raw lines; two validated questions under -n; a nested sub-command named help; the command's own option before the switches; two_runs: two failing runs in one forked process, the second with --no-ansi / -q; no_ansi_tty: streams that support ANSI themselves x {none, --ansi, --no-ansi} x 4 verbosities with a handler that draws a progress indicator, a progress bar and overwritten sections."
BOUNDS = {"quick": "3 commands (one nested) x quiet x {none,-v,-vv,-vvv} x {none,--ansi,--no-ansi} x no-interaction x {none, help, version} x long/short spelling x insertion position among the tokens after the command path x handler raises or not; the same switches after '--'",
          "thorough": "same plus two switches at different positions"}
OUTSIDE = ["switches placed BEFORE the command name (the statement only requires help/version after the command path; a switch in front changes which tokens are leading)", "several verbosity switches or both --ansi and --no-ansi on one line",
           "grouped short switches such as -qn", "the long spelling --verbose (the statement names -v, -vv, -vvv)"]
STUBS = ["buffered non-tty streams", "Question._has_stty_available -> False"]
ASSUMPTIONS = []

qmod.Question._has_stty_available = lambda self: False
STATE = {"calls": [], "raises": False, "fancy": False}


class TtyBuffer(BufferedOutputStream):
    """A stream that itself supports ANSI codes (a terminal)."""

    def supports_ansi(self):
        return True


class Failure(Exception):
    pass


def _fancy(io):
    """What a handler typically draws: a spinner, a progress bar, sections that are overwritten."""
    from clikit.ui.components.progress_bar import ProgressBar
    from clikit.ui.components.progress_indicator import ProgressIndicator
    ind = ProgressIndicator(io, interval=0)
    ind.start("Resolving")
    ind.advance()
    ind.finish("Resolved")
    bar = ProgressBar(io, 2)
    bar.start()
    bar.advance()
    bar.finish()
    io.error_line("")
    first, second = io.section(), io.section()
    first.write_line("<comment>pkg a</comment>: pending")
    second.write_line("<comment>pkg b</comment>: pending")
    first.output.overwrite("<comment>pkg a</comment>: done")
    second.error_output.overwrite("<comment>pkg b</comment>: done")


def _handler(tag):
    def cb(args, io):
        if STATE["fancy"]:
            _fancy(io)
            STATE["calls"].append((tag, args.arguments(), None))
            return 0
        answer = (ConfirmationQuestion("Sure?", True).ask(io), ConfirmationQuestion("Really?", False).ask(io))
        if not io.is_interactive():
            # questions with a validator: non-interactively they return their default AS IT IS (the index of a choice, the text of a number)
            from clikit.ui.components.choice_question import ChoiceQuestion
            from clikit.ui.components.question import Question
            port = Question("Port?", "8080")
            port.set_validator(int)
            answer = answer + (ChoiceQuestion("Pick", ["red", "green"], 1).ask(io), port.ask(io))
        STATE["calls"].append((tag, args.arguments(), answer))
        for stream_write in (io.write_line, io.error_line):
            stream_write("<info>L0</info>")
            stream_write("<info>L1</info>", F.VERBOSE)
            stream_write("<info>L2</info>", F.VERY_VERBOSE)
            stream_write("<info>L3</info>", F.DEBUG)
        for raw_write in (io.write_line_raw, io.error_line_raw):        # raw lines are gated by the same levels
            raw_write("R0")
            raw_write("R1", F.VERBOSE)
            raw_write("R2", F.VERY_VERBOSE)
            raw_write("R3", F.DEBUG)
        if STATE["raises"]:
            raise Failure("handler failed")
        return 0
    return cb


def build():
    cfg = DefaultApplicationConfig("app", "1.2.3")
    cfg.set_catch_exceptions(True)
    cfg.set_terminate_after_run(False)
    g = cfg.create_command("greet")
    g.set_description("Greets somebody")
    g.add_argument("name", Argument.OPTIONAL, "Who")
    g.add_option("yell", "y", Option.NO_VALUE, "Yell")
    g.set_handler(CallbackHandler(_handler("greet")))
    s = cfg.create_command("serve")
    s.set_handler(CallbackHandler(_handler("serve")))
    st = s.create_sub_command("start")
    st.set_description("Starts")
    st.add_argument("port", Argument.OPTIONAL, "Port")
    st.set_handler(CallbackHandler(_handler("serve start")))
    sh = s.create_sub_command("help")              # a nested sub-command that is called like the help command
    sh.set_description("Explains serve")
    sh.add_argument("topic", Argument.OPTIONAL, "Topic")
    sh.set_handler(CallbackHandler(_handler("serve help")))
    e = cfg.create_command("echo")
    e.add_argument("words", Argument.MULTI_VALUED, "Words")
    e.set_handler(CallbackHandler(_handler("echo")))
    return ConsoleApplication(cfg)


BASES = [(["greet"], ["bob"], "greet"), (["serve", "start"], ["80"], "serve start"), (["echo"], ["a", "b"], "echo"), (["serve", "help"], ["ports"], "serve help")]
VERB = [None, "-v", "-vv", "-vvv"]
SPELL = {"q": ("--quiet", "-q"), "n": ("--no-interaction", "-n"), "h": ("--help", "-h"), "V": ("--version", "-V")}


def _switch_tokens(q, verb, ansi, n, hv, short):
    toks = []
    if q:
        toks.append(SPELL["q"][short])
    if VERB[verb]:
        toks.append(VERB[verb])
    if ansi == 1:
        toks.append("--ansi")
    elif ansi == 2:
        toks.append("--no-ansi")
    if n:
        toks.append(SPELL["n"][short])
    if hv == 1:
        toks.append(SPELL["h"][short])
    elif hv == 2:
        toks.append(SPELL["V"][short])
    return toks


def _run(app, tokens):
    out, err = BufferedOutputStream(), BufferedOutputStream()
    inp = StringInputStream("n\ny\n")
    del STATE["calls"][:]
    status = app.run(ArgvArgs(["app"] + tokens), inp, out, err)
    return status, out.fetch(), err.fetch()


def _lines(level, decorated):
    txt = ""
    for k in range(level + 1):
        txt += ("\x1b[32mL%d\x1b[0m" % k if decorated else "L%d" % k) + "\n"
    for k in range(level + 1):
        txt += "R%d\n" % k
    return txt


def _case(base_i, q, verb, ansi, n, hv, short, pos, raises, rotate, own=False):
    path, positionals, full_name = BASES[base_i]
    sw = _switch_tokens(q, verb, ansi, n, hv, short)
    lead = path + (["--yell"] if own and full_name == "greet" else [])      # an option of the command itself may stand before the global switches
    if rotate and sw:
        sw = sw[1:] + sw[:1]                         # another order of the same switches
    pos = min(pos, len(positionals))
    tokens = lead + positionals[:pos] + sw + positionals[pos:]
    # known finding: '-v' is declared with an optional value and swallows the positional that follows it
    i = tokens.index("-v") if "-v" in tokens else -1
    if i >= 0 and i + 1 < len(tokens) and not tokens[i + 1].startswith("-") and kf.excluded("C09-v-swallows-positional", True):
        return True
    STATE["raises"] = raises
    app = build()
    status, out, err = _run(app, tokens)
    calls = list(STATE["calls"])
    decorated = ansi == 1
    if q:
        if out != "" or err != "":
            return False                              # quiet suppresses everything, error reports included
    if hv == 1:                                       # help: that command's page, status 0, handler not invoked
        if status != 0 or calls:
            return False
        if not q:
            page_io = BufferedIO()
            cmd = app.get_command(path[0])
            for p in path[1:]:
                cmd = cmd.get_sub_command(p)
            CommandHelp(cmd).render(page_io)
            import re
            if re.sub(r"\x1b\[[0-9;]*m", "", out) != page_io.fetch_output():
                return False
            if ("\x1b" in out) != decorated:
                return False
        return True
    if hv == 2:                                       # version: name and version, status 0, handler not invoked
        if status != 0 or calls:
            return False
        if not q:
            import re
            if re.sub(r"\x1b\[[0-9;]*m", "", out).strip() != "app version 1.2.3".replace("app", "App") and re.sub(r"\x1b\[[0-9;]*m", "", out).strip() != "app version 1.2.3":
                return False
            if ("\x1b" in out) != decorated:
                return False
        return True
    # an ordinary run: the selected command's handler ran once with its arguments
    exp_args = {"greet": {"name": "bob"}, "serve start": {"port": "80"}, "echo": {"words": ["a", "b"]}, "serve help": {"topic": "ports"}}[full_name]
    if len(calls) != 1 or calls[0][0] != full_name or calls[0][1] != exp_args:
        return False
    if calls[0][2] != ((True, False, 1, "8080") if n else (False, True)):     # -n: both questions return their defaults (yes / no) without reading; otherwise the typed 'n' / 'y'
        return False
    if (status != 0) != raises:
        return False
    if q:
        return True
    if ("\x1b" in out + err) != decorated:            # --no-ansi / plain buffers: no escape byte; --ansi forces decoration
        return False
    level = verb
    import re
    strip = lambda s: re.sub(r"\x1b\[[0-9;]*m", "", s)
    question = "Sure? (yes/no) [yes] Really? (yes/no) [no] "
    exp_err_prefix = "" if n else question
    if not strip(err).startswith(exp_err_prefix + _lines(level, False)) and not n:
        return False
    if n and not strip(err).startswith(_lines(level, False)):
        return False
    if not strip(out).startswith(_lines(level, False)):
        return False
    if not raises:
        return strip(out) == _lines(level, False) and strip(err) == exp_err_prefix + _lines(level, False)
    return "handler failed" in strip(out) + strip(err)


def _no_ansi_tty_case(base_i, mode, pos, verb, tty_out, tty_err):
    """Streams that support ANSI themselves + a handler that draws: --no-ansi removes EVERY escape sequence (SGR and cursor control alike)."""
    path, positionals, full_name = BASES[base_i]
    sw = ([VERB[verb]] if VERB[verb] else []) + (["--no-ansi"] if mode == 2 else (["--ansi"] if mode == 1 else []))
    pos = min(pos, len(positionals))
    tokens = path + positionals[:pos] + sw + positionals[pos:]
    i = tokens.index("-v") if "-v" in tokens else -1
    if i >= 0 and i + 1 < len(tokens) and not tokens[i + 1].startswith("-") and kf.excluded("C09-v-swallows-positional", True):
        return True
    STATE["raises"], STATE["fancy"] = False, True
    try:
        app = build()
        out, err = (TtyBuffer() if tty_out else BufferedOutputStream()), (TtyBuffer() if tty_err else BufferedOutputStream())
        del STATE["calls"][:]
        status = app.run(ArgvArgs(["app"] + tokens), StringInputStream(""), out, err)
        o, e = out.fetch(), err.fetch()
    finally:
        STATE["fancy"] = False
    if status != 0 or len(STATE["calls"]) != 1:
        return False
    if mode == 2:
        return "\x1b" not in o + e and "pkg a: done" in o and "pkg b: done" in e and "Resolved" in e
    if mode == 1:
        return "\x1b[" in o and "\x1b[" in e            # forced on any stream
    # without a switch: a stream that does not support ANSI gets no escape byte (what a terminal stream gets by default is not the statement's business)
    return (tty_out or "\x1b" not in o) and (tty_err or "\x1b" not in e)


def no_ansi_tty(base: int, mode: int, pos: int, verb: int, tty_out: bool, tty_err: bool) -> bool:
    """
    pre: 0 <= base <= 2 and 0 <= mode <= 2 and 0 <= pos <= 2 and 0 <= verb <= 3
    post: _
    """
    return untraced(_no_ansi_tty_case, conc_int(base, 0, 2), conc_int(mode, 0, 2), conc_int(pos, 0, 2), conc_int(verb, 0, 3), conc_bool(tty_out), conc_bool(tty_err))


def _two_runs_case(first_ansi, verb1, verb2, second):
    """Two runs in ONE process (each on a freshly built application): what the first run decorated must not show in the second."""
    STATE["raises"], STATE["fancy"] = True, False
    outs = []
    for tokens in (["greet", "bob"] + ([VERB[verb1]] if VERB[verb1] else []) + (["--ansi"] if first_ansi else []),
                   ["greet", "bob"] + ([VERB[verb2]] if VERB[verb2] else []) + [["--no-ansi"], [], ["-q"]][second]):
        i = tokens.index("-v") if "-v" in tokens else -1
        if i >= 0 and i + 1 < len(tokens) and not tokens[i + 1].startswith("-"):
            return True
        status, out, err = _run(build(), tokens)
        if status == 0:
            return False
        outs.append(out + err)
    if second == 2:
        return outs[1] == ""
    return "\x1b" not in outs[1] and "handler failed" in outs[1]


def two_runs(first_ansi: bool, verb1: int, verb2: int, second: int) -> bool:
    """
    pre: 0 <= verb1 <= 3 and 0 <= verb2 <= 3 and 0 <= second <= 2
    post: _
    """
    from vf.sym import isolated
    return isolated(_two_runs_case, conc_bool(first_ansi), conc_int(verb1, 0, 3), conc_int(verb2, 0, 3), conc_int(second, 0, 2))


def switches(q: bool, ansi: int, n: bool, hv: int, short: bool, pos: int, raises: bool, rotate: bool, own: bool) -> bool:
    """
    pre: 0 <= ansi <= 2 and 0 <= hv <= 2 and 0 <= pos <= 2
    pre: PART["base"] == 0 or not own
    post: _
    """
    return untraced(_case, PART["base"], conc_bool(q), PART["verb"], conc_int(ansi, 0, 2), conc_bool(n), conc_int(hv, 0, 2), 1 if conc_bool(short) else 0,
                    conc_int(pos, 0, 2), conc_bool(raises), conc_bool(rotate), conc_bool(own))


def _after_dd_case(q, verb, ansi, n, hv, short, raises, vbefore):
    sw = _switch_tokens(q, verb, ansi, n, hv, short)
    STATE["raises"] = raises
    app = build()
    before = [VERB[vbefore]] if VERB[vbefore] else []
    status, out, err = _run(app, ["echo", "a"] + before + ["--"] + sw)
    calls = list(STATE["calls"])
    # none of the switches has any effect after '--': they are plain words; a verbosity switch right before '--' keeps its own effect
    if len(calls) != 1 or calls[0][0] != "echo" or calls[0][1] != {"words": ["a"] + sw} or calls[0][2] != (False, True):
        return False
    if "\x1b" in out + err:
        return False
    if (status != 0) != raises:
        return False
    if not out.startswith(_lines(vbefore, False)) or out.startswith(_lines(vbefore, False) + "L%d" % (vbefore + 1)):
        return False
    exp = "Sure? (yes/no) [yes] Really? (yes/no) [no] " + _lines(vbefore, False)
    return err.startswith(exp) and not err.startswith(exp + "L%d" % (vbefore + 1))


def after_dd(q: bool, verb: int, ansi: int, n: bool, hv: int, short: bool, raises: bool, vbefore: int) -> bool:
    """
    pre: 0 <= verb <= 3 and 0 <= ansi <= 2 and 0 <= hv <= 2 and 0 <= vbefore <= 3
    pre: vbefore == PART["vbefore"]
    post: _
    """
    return untraced(_after_dd_case, conc_bool(q), conc_int(verb, 0, 3), conc_int(ansi, 0, 2), conc_bool(n), conc_int(hv, 0, 2), 1 if conc_bool(short) else 0, conc_bool(raises), conc_int(vbefore, 0, 3))


def switches_twin(q: bool, ansi: int, n: bool, hv: int, short: bool, pos: int, raises: bool, rotate: bool) -> bool:
    """
    pre: 0 <= ansi <= 2 and hv == 0 and pos == 1 and not rotate
    post: _
    """
    ok = untraced(_case, 0, conc_bool(q), 2, conc_int(ansi, 0, 2), conc_bool(n), 0, 0, 1, conc_bool(raises), False)
    return not (ok and not q and ansi == 1 and n and raises)


def conditions(tier):
    quick = tier == "quick"
    t = 120 if quick else 1500
    conds = []
    for base in range(len(BASES)):
        for verb in range(4):
            conds.append({"name": "switches[%s,%s]" % (BASES[base][2].replace(" ", "_"), VERB[verb] or "normal"), "fn": switches, "timeout": t, "part": {"base": base, "verb": verb},
                          "bounds": "command %r, verbosity switch %s; symbolic: quiet, --ansi/--no-ansi, no-interaction, help/version, long/short spelling, insertion position, switch order, handler raises" % (BASES[base][2], VERB[verb])})
    for vb in range(4):
        conds.append({"name": "after_dd[before=%s]" % (VERB[vb] or "none"), "fn": after_dd, "timeout": t, "part": {"vbefore": vb},
                      "bounds": "echo a %s -- <switches>: every subset as above, long/short, handler raises or not" % (VERB[vb] or "")})
    conds.append({"name": "two_runs", "fn": two_runs, "timeout": t,
                  "bounds": "two failing runs in one process (forked per case), the first with or without --ansi at any verbosity, the second with --no-ansi / no switch / -q at any verbosity: the second shows no escape byte (nothing at all under -q)"})
    conds.append({"name": "no_ansi_tty", "fn": no_ansi_tty, "timeout": t,
                  "bounds": "3 commands x {no switch, --ansi, --no-ansi} at every position x 4 verbosity switches x streams that do / do not support ANSI themselves; the handler draws a progress indicator, a progress bar and overwritten sections"})
    conds.append({"name": "switches_twin", "fn": switches_twin, "timeout": t, "expect": "refute", "part": {"base": 0, "verb": 2}, "bounds": "reachability twin"})
    return conds

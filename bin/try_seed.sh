#!/bin/sh
# usage: try_seed.sh <patch file> <property> [tier] [extra run.py args]  - apply a seeded change to /repo, run the check, undo it
P=$1; ID=$2; TIER=${3:-quick}; shift; shift; shift
cd /repo && git apply "$P" || { echo "PATCH DOES NOT APPLY"; exit 3; }
cd /verif && ./check "$ID" "$TIER" "$@" > /tmp/try_seed.$$.log 2>&1; RC=$?
git -C /repo checkout -- . 
grep -E "VIOLATION|violation in|ENGINE-ERROR|conditions," /tmp/try_seed.$$.log | cut -c1-400
echo "exit=$RC"; rm -f /tmp/try_seed.$$.log

#!/verif/.venv/bin/python
# Replays a counterexample on the real code in /repo/src (no solver involved).
import os, sys, json
sys.path[:0] = ['/verif', '/repo/src']
from vf.replay import replay
ARGS = json.loads('{"q": false, "verb": 3, "ansi": 0, "n": false, "hv": 0, "short": false, "raises": false, "vbefore": 1}')
r = replay('harness.c09', 'after_dd', ARGS, 'quick')
print('REPRODUCED: ' + r if r else 'NOT-REPRODUCED')
sys.exit(1 if r else 0)

#!/verif/.venv/bin/python
# Replays a counterexample on the real code in /repo/src (no solver involved).
import os, sys, json
sys.path[:0] = ['/verif', '/repo/src']
from vf.replay import replay
ARGS = json.loads('{"exit_kind": 2}')
r = replay('harness.c19', 'real_threads', ARGS, 'quick')
print('REPRODUCED: ' + r if r else 'NOT-REPRODUCED')
sys.exit(1 if r else 0)

"""C10 - quiet and verbosity gate every write path identically.

E1 (CrossHair).  Symbolic: flags (Optional[int], unbounded), verbosity index, quiet.
Concrete: the writing entry point, found by reflection on Output / SectionOutput / IO / BufferedIO
at run time, and the formatter / stream kind.  One contract per (object kind), the entry point is
a bounded symbolic index (one fork per method).
"""
import inspect
from typing import Optional

from clikit.api.io import IO, Input, Output
from clikit.api.io.section_output import SectionOutput
from clikit.formatter import AnsiFormatter, NullFormatter, PlainFormatter
from clikit.io.buffered_io import BufferedIO
from clikit.io.input_stream.string_input_stream import StringInputStream
from clikit.io.output_stream.buffered_output_stream import BufferedOutputStream

from vf import kf

PROPERTY = "C10"
FUNCTIONS = ["Output.write/write_line/write_raw/write_line_raw/_may_write", "SectionOutput.write/overwrite/clear",
             "IO.write*/error*", "BufferedIO (inherits IO)", "Output.set_verbosity/set_quiet"]
BOUNDS = {"quick": "flags: every Python int or None; verbosity in {0,1,2,4}; quiet in {F,T}; message fixed 'x'; every reflected entry point; formatters Null/Plain/forced-ANSI",
          "thorough": "same, larger budgets, plus monotonicity contract over two symbolic levels"}
OUTSIDE = ["messages other than a one-character untagged text (the gate does not look at the message)", "real tty streams (BufferedOutputStream only)"]
STUBS = ["Terminal.width is not consulted by the gate; SectionOutput uses the real Terminal()"]
ASSUMPTIONS = ["'lowest level requested by the flags' = VERBOSE if bit 1 set, else VERY_VERBOSE if bit 2, else DEBUG if bit 4, else NORMAL (the documented flag meaning in api/io/flags.py)"]

LEVELS = [0, 1, 2, 4]
PART = {}   # concrete partition of the current condition (set by the worker / replay from cond["part"])
EXTRA_BOUNDS = 'also: 4-6 setter histories per gate (incl. re-setting formatter/stream, I/O objects whose outputs were out of step); gate_section_redraw: gated write into the younger of two ANSI sections, then the older one writes / clear / overwrite.'


def lowest(flags):
    if flags % 2 == 1:
        return 1
    if (flags // 2) % 2 == 1:
        return 2
    if (flags // 4) % 2 == 1:
        return 4
    return 0


def _writers(cls):
    """Public writing entry points (string, flags=None) found by reflection."""
    names = []
    for name, fn in inspect.getmembers(cls, inspect.isfunction):
        if name.startswith("_"):
            continue
        if not (name.startswith("write") or name.startswith("error") or name == "overwrite"):
            continue
        params = list(inspect.signature(fn).parameters)
        if len(params) >= 2 and params[1] in ("string", "message"):
            names.append((name, "flags" in params))
    return sorted(names)


OUT_METHODS = _writers(Output)
SEC_METHODS = _writers(SectionOutput)
IO_METHODS = _writers(IO)
FMT = [NullFormatter, PlainFormatter, lambda: AnsiFormatter(forced=True)]


def _call(obj, meth, flags):
    name, takes_flags = meth
    if takes_flags:
        getattr(obj, name)("x", flags)
    else:
        getattr(obj, name)("x")


def _expected(vi, flags, quiet, takes_flags=True):
    f = 0 if (flags is None or not takes_flags) else flags
    return (not quiet) and LEVELS[vi] >= lowest(f)


def _configure(obj, vi, quiet, order):
    """The gate depends on the CURRENT verbosity and quiet state only - whatever order and history of setter calls produced it."""
    if order == 0:
        obj.set_verbosity(LEVELS[vi])
        obj.set_quiet(quiet)
    elif order == 1:
        obj.set_quiet(quiet)
        obj.set_verbosity(LEVELS[vi])
    elif order == 2:
        obj.set_quiet(not quiet)
        obj.set_verbosity(LEVELS[vi])
        obj.set_quiet(quiet)
    elif order == 3:
        obj.set_verbosity(LEVELS[3 - vi])
        obj.set_quiet(quiet)
        obj.set_verbosity(LEVELS[vi])
    elif hasattr(obj, "error_output"):
        # an I/O object whose two outputs were set individually before (and so may be out of step): the I/O-level setters bring BOTH into line
        if order == 4:
            obj.output.set_quiet(quiet)
            obj.output.set_verbosity(LEVELS[vi])
            obj.error_output.set_quiet(not quiet)
            obj.error_output.set_verbosity(LEVELS[3 - vi])
        else:
            obj.error_output.set_quiet(quiet)
            obj.error_output.set_verbosity(LEVELS[vi])
            obj.output.set_quiet(not quiet)
            obj.output.set_verbosity(LEVELS[3 - vi])
            obj.set_quiet(not quiet)
            obj.set_verbosity(LEVELS[3 - vi])
        obj.set_quiet(quiet)
        obj.set_verbosity(LEVELS[vi])
    else:
        obj.set_verbosity(LEVELS[vi])
        obj.set_quiet(quiet)
    if order % 2 == 1 and hasattr(obj, "set_formatter"):
        # replacing the formatter or the stream (by the ones in use) has nothing to do with quiet mode and verbosity
        fmt = obj.formatter if hasattr(obj, "formatter") else obj.output.formatter
        obj.set_formatter(fmt)
        if hasattr(obj, "set_stream") and hasattr(obj, "stream"):
            obj.set_stream(obj.stream)
    return obj.is_quiet() == quiet and (not hasattr(obj, "verbosity") or obj.verbosity == LEVELS[vi])


def gate_output(vi: int, flags: Optional[int], quiet: bool, order: int) -> bool:
    """
    pre: 0 <= vi <= 3 and 0 <= order <= 5
    post: _
    """
    meth, fmt = PART["meth"], PART["fmt"]
    st = BufferedOutputStream()
    o = Output(st, FMT[fmt]())
    if not _configure(o, vi, quiet, order):
        return False
    _call(o, OUT_METHODS[meth], flags)
    return (st.fetch() != "") == _expected(vi, flags, quiet, OUT_METHODS[meth][1])


def gate_output_twin(vi: int, flags: Optional[int], quiet: bool, order: int) -> bool:
    """
    pre: 0 <= vi <= 3 and 0 <= order <= 5
    post: _
    """
    meth, fmt = PART["meth"], PART["fmt"]
    st = BufferedOutputStream()
    o = Output(st, FMT[fmt]())
    if not _configure(o, vi, quiet, order):
        return False
    _call(o, OUT_METHODS[meth], flags)
    return st.fetch() == ""       # reachability twin: some input must write


def gate_section(vi: int, flags: Optional[int], quiet: bool, order: int) -> bool:
    """
    pre: 0 <= vi <= 3 and 0 <= order <= 5
    post: _
    """
    meth, ansi = PART["meth"], PART["ansi"]
    st = BufferedOutputStream()
    parent = Output(st, AnsiFormatter(forced=True) if ansi else PlainFormatter())
    s = parent.section()
    if not _configure(s, vi, quiet, order):
        return False
    _call(s, SEC_METHODS[meth], flags)
    wrote = st.fetch() != ""
    exp = _expected(vi, flags, quiet, SEC_METHODS[meth][1])
    # what the section remembers as displayed must agree with what reached the stream
    if ansi and SEC_METHODS[meth][0] in ("write", "write_line", "overwrite"):
        if (s.content != "") != exp:
            return False
    return wrote == exp


def gate_section_second(vi: int, flags: Optional[int], quiet: bool, order: int) -> bool:
    """
    pre: 0 <= vi <= 3 and 0 <= order <= 5
    post: _
    """
    meth = PART["meth"]
    # a gated write into one of two stacked ANSI sections: the other section's text is redrawn only
    # if something is written, and nothing (not even cursor codes) appears otherwise
    st = BufferedOutputStream()
    parent = Output(st, AnsiFormatter(forced=True))
    s1 = parent.section()
    s2 = parent.section()
    s1.write_line("a")
    s2.write_line("b")
    before = st.fetch()
    if not _configure(s1, vi, quiet, order):
        return False
    _call(s1, SEC_METHODS[meth], flags)
    wrote = st.fetch() != before
    return wrote == _expected(vi, flags, quiet, SEC_METHODS[meth][1])


def gate_section_redraw(vi: int, flags: Optional[int], quiet: bool, order: int, then: int) -> bool:
    """
    pre: 0 <= vi <= 3 and 0 <= order <= 1 and then == PART["then"]
    post: _
    """
    # a gated write into the YOUNGER of two stacked ANSI sections, then the older section writes (which re-draws the younger one) or the
    # younger one is cleared / overwritten: suppressed text never reaches the stream, neither at once nor later; no stray cursor codes
    meth = PART["meth"]
    st = BufferedOutputStream()
    parent = Output(st, AnsiFormatter(forced=True))
    s1 = parent.section()
    s2 = parent.section()
    s1.write_line("a")
    if not _configure(s2, vi, quiet, order):
        return False
    exp = _expected(vi, flags, quiet, SEC_METHODS[meth][1])
    _call(s2, SEC_METHODS[meth], flags)
    if (s2.content != "") != exp:
        return False
    before = st.fetch()
    if ("x" in before) != exp:
        return False
    if then == 0:
        s1.write_line("c")                   # re-draws everything below s1
        after = st.fetch()[len(before):]
        return ("x" in after) == exp and "c" in after
    s2.set_quiet(False)
    s2.set_verbosity(4)
    if then == 1:
        s2.clear()
        after = st.fetch()[len(before):]
        return (after != "") == exp           # nothing to clear when nothing was shown
    s2.overwrite("y")
    after = st.fetch()[len(before):]
    return "y" in after and "x" not in after and (("\x1b[" in after) == exp)


def gate_io(vi: int, flags: Optional[int], quiet: bool, order: int) -> bool:
    """
    pre: 0 <= vi <= 3 and 0 <= order <= 5
    post: _
    """
    meth, buffered = PART["meth"], PART["buffered"]
    if buffered:
        io = BufferedIO()
        so, se = io.output.stream, io.error_output.stream
    else:
        so, se = BufferedOutputStream(), BufferedOutputStream()
        io = IO(Input(StringInputStream("")), Output(so, AnsiFormatter(forced=True)), Output(se, NullFormatter()))
    if not _configure(io, vi, quiet, order):
        return False
    name = IO_METHODS[meth][0]
    _call(io, IO_METHODS[meth], flags)
    target, other = (se, so) if name.startswith("error") else (so, se)
    if other.fetch() != "":
        return False
    return (target.fetch() != "") == _expected(vi, flags, quiet, IO_METHODS[meth][1])


def gate_io_section(vi: int, flags: Optional[int], quiet: bool, order: int) -> bool:
    """
    pre: 0 <= vi <= 3 and 0 <= order <= 5
    post: _
    """
    meth = PART["meth"]
    root = BufferedIO(formatter=AnsiFormatter(forced=True))
    io = root.section()
    so, se = root.output.stream, root.error_output.stream
    if not _configure(io, vi, quiet, order):
        return False
    name = IO_METHODS[meth][0]
    _call(io, IO_METHODS[meth], flags)
    target, other = (se, so) if name.startswith("error") else (so, se)
    if other.fetch() != "":
        return False
    return (target.fetch() != "") == _expected(vi, flags, quiet, IO_METHODS[meth][1])


def monotone(v1: int, v2: int, flags: Optional[int]) -> bool:
    """
    pre: 0 <= v1 <= v2 <= 3
    post: _
    """
    meth, fmt = PART["meth"], PART["fmt"]
    outs = []
    for vi in (v1, v2):
        st = BufferedOutputStream()
        o = Output(st, FMT[fmt]())
        o.set_verbosity(LEVELS[vi])
        _call(o, OUT_METHODS[meth], flags)
        outs.append(st.fetch())
    # raising the verbosity never removes what was shown
    return outs[0] == "" or outs[1] == outs[0]


def may_write_kernel(verbosity: int, flags: Optional[int], quiet: bool) -> bool:
    """
    pre: verbosity in (0, 1, 2, 4)
    post: _
    """
    o = Output(BufferedOutputStream(), NullFormatter())
    o.set_verbosity(verbosity)
    o.set_quiet(quiet)
    f = 0 if flags is None else flags
    return o._may_write(flags) == ((not quiet) and verbosity >= lowest(f))


def conditions(tier):
    t = 60 if tier == "quick" else 240
    b = "flags any int|None, 4 verbosities, quiet; "
    conds = [{"name": "may_write_kernel", "fn": may_write_kernel, "timeout": t, "bounds": "verbosity in {0,1,2,4}; flags any int|None"}]
    fmts = ["null", "plain", "ansi"]
    for mi, m in enumerate(OUT_METHODS):
        for fi in range(3):
            conds.append({"name": "gate_output[%s,%s]" % (m[0], fmts[fi]), "fn": gate_output, "timeout": t,
                          "part": {"meth": mi, "fmt": fi}, "bounds": b + "Output.%s, %s formatter" % (m[0], fmts[fi])})
        conds.append({"name": "monotone[%s]" % m[0], "fn": monotone, "timeout": t, "part": {"meth": mi, "fmt": 2},
                      "bounds": "two symbolic verbosity levels v1<=v2, flags any int|None, Output.%s" % m[0]})
    conds.append({"name": "gate_output_twin", "fn": gate_output_twin, "timeout": t, "expect": "refute",
                  "part": {"meth": 0, "fmt": 0}, "bounds": "reachability twin"})
    for mi, m in enumerate(SEC_METHODS):
        for ansi in (True, False):
            conds.append({"name": "gate_section[%s,%s]" % (m[0], "ansi" if ansi else "plain"), "fn": gate_section, "timeout": t,
                          "part": {"meth": mi, "ansi": ansi}, "bounds": b + "SectionOutput.%s" % m[0]})
        conds.append({"name": "gate_section_second[%s]" % m[0], "fn": gate_section_second, "timeout": t,
                      "part": {"meth": mi}, "bounds": b + "first of two stacked ANSI sections, SectionOutput.%s" % m[0]})
    for mi, m in enumerate(SEC_METHODS):
        if m[0] in ("write", "write_line", "overwrite"):
            for then in range(3):
                conds.append({"name": "gate_section_redraw[%s,then %s]" % (m[0], ["older section writes", "clear", "overwrite"][then]), "fn": gate_section_redraw, "timeout": t, "part": {"meth": mi, "then": then},
                              "bounds": b + "younger of two stacked ANSI sections, SectionOutput.%s, then %s" % (m[0], ["the older section writes (re-draw)", "the section is cleared", "the section is overwritten"][then])})
    for mi, m in enumerate(IO_METHODS):
        for buffered in (True, False):
            conds.append({"name": "gate_io[%s,%s]" % (m[0], "BufferedIO" if buffered else "IO"), "fn": gate_io, "timeout": t,
                          "part": {"meth": mi, "buffered": buffered}, "bounds": b + "IO.%s" % m[0]})
        conds.append({"name": "gate_io_section[%s]" % m[0], "fn": gate_io_section, "timeout": t,
                      "part": {"meth": mi}, "bounds": b + "BufferedIO.section().%s (ANSI)" % m[0]})
    return conds

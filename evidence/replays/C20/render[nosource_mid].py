#!/verif/.venv/bin/python
# Replays a counterexample on the real code in /repo/src (no solver involved).
import os, sys, json
sys.path[:0] = ['/verif', '/repo/src']
from vf.replay import replay
ARGS = json.loads('{"msg_i": 2, "verbosity": 3, "simple": false, "utf8": false, "ignore_i": 2}')
r = replay('harness.c20', 'render[nosource_mid]', ARGS, 'quick')
print('REPRODUCED: ' + r if r else 'NOT-REPRODUCED')
sys.exit(1 if r else 0)

#!/verif/.venv/bin/python
# Replays a counterexample on the real code in /repo/src (no solver involved).
import os, sys, json
sys.path[:0] = ['/verif', '/repo/src']
from vf.replay import replay
ARGS = json.loads('{"s": "-", "n": 0, "bi": 0, "usenull": false, "p1": "1", "p2": "", "n2": 0, "tail": "--", "tail2": "", "lenient": false}')
r = replay('harness.c01', 'line[S8,sp3,values]', ARGS, 'quick')
print('REPRODUCED: ' + r if r else 'NOT-REPRODUCED')
sys.exit(1 if r else 0)

"""Helpers shared by the harnesses for FINITE domains.

Where the code under test uses an input as a dictionary key, passes it to `re` or to other C code, the
engine would realise it anyway (or, for `re`, model it unsoundly).  The harness then splits the finite
domain explicitly - one solver decision per value, so "all paths closed" still means "every value of
the domain" - and may run the now fully concrete remainder with tracing switched off (`untraced`),
which makes a path cost what the real code costs.  Anything still symbolic must NOT be passed to
`untraced`.
"""


def conc_int(k, lo, hi):
    """A plain int equal to symbolic k, for lo <= k <= hi (one path per value)."""
    for v in range(lo, hi + 1):
        if k == v:
            return v
    return lo


def conc_bool(b):
    return True if b else False


def conc_str(s, alphabet):
    """A plain str equal to symbolic s over the given alphabet (one path per string)."""
    out = ""
    for c in s:
        for a in alphabet:
            if c == a:
                out += a
                break
    return out


def untraced(fn, *args):
    """Run fn(*args) with the symbolic tracer off (all args must already be concrete)."""
    try:
        from crosshair.tracers import NoTracing, is_tracing
    except ImportError:      # plain replay environment
        return fn(*args)
    if is_tracing():
        with NoTracing():
            return fn(*args)
    return fn(*args)

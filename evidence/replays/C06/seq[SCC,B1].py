#!/verif/.venv/bin/python
# Replays a counterexample on the real code in /repo/src (no solver involved).
import os, sys, json
sys.path[:0] = ['/verif', '/repo/src']
from vf.replay import replay
ARGS = json.loads('{"a1": 1, "a2": 2, "a3": 3, "b1": 2, "b2": 2, "b3": 1, "c1": 0, "c2": 0, "c3": 0}')
r = replay('harness.c06', 'seq[SCC,B1]', ARGS, 'quick')
print('REPRODUCED: ' + r if r else 'NOT-REPRODUCED')
sys.exit(1 if r else 0)

"""C17 - what is rendered does not depend on what was processed before.

E1 (CrossHair; finite domains split by the solver, real code untraced).
Sequence form: three command lines chosen by symbolic indices from a menu (valid, invalid, help in both forms,
failing help, version, unknown option, too many arguments, undefined command, --ansi runs) are run on ONE
application object; every run is compared (status, both streams, handler arguments) with the same line run on an
application built from a fresh configuration.  Style form: predefined table styles are created and customised in a
symbolic order while a table built earlier with another style object must keep rendering the same.
Repeat form: every component rendered twice gives identical text.
"""
from clikit.api.args.format.argument import Argument
from clikit.api.args.format.option import Option
from clikit.args.argv_args import ArgvArgs
from clikit.args.string_args import StringArgs
from clikit.config.default_application_config import DefaultApplicationConfig
from clikit.console_application import ConsoleApplication
from clikit.handler.callback_handler import CallbackHandler
from clikit.io.buffered_io import BufferedIO
from clikit.io.input_stream.string_input_stream import StringInputStream
from clikit.io.output_stream.buffered_output_stream import BufferedOutputStream
from clikit.ui.components.exception_trace import ExceptionTrace
from clikit.ui.components.table import Table
from clikit.ui.help.application_help import ApplicationHelp
from clikit.ui.help.command_help import CommandHelp
from clikit.ui.style.alignment import Alignment
from clikit.ui.style.border_style import BorderStyle
from clikit.ui.style.table_style import TableStyle

from vf.sym import conc_bool, conc_int, isolated, untraced

PROPERTY = "C17"
FUNCTIONS = ["ConsoleApplication.run", "HelpResolver.resolve/create_resolved_command", "Config.enable/disable_lenient_args_parsing", "DefaultApplicationConfig.create_io", "TableStyle.borderless/compact/ascii/solid",
             "BorderStyle.none/ascii/solid", "Table.render", "ApplicationHelp/CommandHelp.render", "ExceptionTrace.render (_FRAME_SNIPPET_CACHE)"]
PART = {}
EXTRA_BOUNDS = 'also: lines for a factory handler with state, a multi-valued option, a command with a pinned parser object, quoted vs. blank-joined tokens, a handler that adds styles; same_list: one argv list object used for two runs.'
LINES = ["greet bob", "greet", "num 5", "num abc", "num 1 2", "help", "help greet", "greet --help", "help num abc", "--version", "greet --zz", "nope",
         "greet bob --ansi", "help greet --ansi", "loose 1 2 3", "help loose", "-q greet bob", "num 7 -vvv",
         "remote -h", "help remote", "remote add o extra", "fail -vvv --ansi", "fail -vvv --no-ansi", "count", "greet --tag a -tb", "greet al --tag c",
         "pinned a b", "pinned c", 'greet "bob al"', "greet bob al", "mark", "show", "show --ansi"]
# quick: second and third run from this sub-menu (every kind of line once)
SHORT = [0, 3, 4, 6, 7, 8, 10, 13, 14, 18, 20, 21, 22, 23, 24, 25, 26, 27, 28, 29, 30, 31, 32]
THIRD = [0, 4, 6, 14, 20, 22, 23, 25, 27, 29, 31, 32]      # quick: third run from the lines that observe carried state
BOUNDS = {"quick": "3 runs on one application, first and second line from a 23-line sub-menu of the 33-line menu, third from 12 observing lines (quick) / the full menu (thorough); 4 table style kinds x 5 customisations x creation orders; double rendering of tables, help pages and error traces",
          "thorough": "additionally 4 runs whose first line is an invalid value / failing help / unknown option / --ansi help"}
OUTSIDE = ["sequences of 5-6 runs", "re-using one RawArgs OBJECT for two runs (each run gets a fresh StringArgs/ArgvArgs of its line): HelpResolver.resolve removes the leading 'help' token from the raw args it is given - observed, but the statement quantifies over command lines",
           "process-wide state outside clikit (pastel, crashtest)"]
STUBS = ["buffered streams; a handler that records its arguments and writes them at every verbosity"]
ASSUMPTIONS = ["'a freshly built application' = ConsoleApplication over a freshly built configuration"]

CALLS = []


def _handler(tag):
    def cb(args, io):
        CALLS.append((tag, args.arguments(), {k: v for k, v in args.options(False).items() if k not in ("verbose",)}))
        io.write_line("<info>%s</info> got <b>%r</b>" % (tag, sorted(args.arguments().items())))
        io.write_line("verbose", 1)
        io.error_line("<comment>debug</comment>", 4)
        return 0
    return cb


class Counter(object):
    """A handler with state of its own."""

    def __init__(self):
        self.n = 0

    def handle(self, args, io, command):
        self.n += 1
        CALLS.append(("count", self.n, {}))
        io.write_line("handled %d time(s)" % self.n)
        return 0 if self.n == 1 else 3


def _mark(args, io):
    from clikit.api.formatter.style import Style
    io.output.formatter.add_style(Style("hl").fg("yellow").bold())
    io.error_output.formatter.add_style(Style("info").fg("red"))
    io.write_line("<hl>marked</hl> <info>i</info>")
    io.error_line("<info>e</info>")
    CALLS.append(("mark", {}, {}))
    return 0


def _show(args, io):
    io.write_line("<hl>shown</hl> <info>i</info>")
    io.error_line("<info>e</info> <hl>h</hl>")
    CALLS.append(("show", {}, {}))
    return 0


def _failing(args, io):
    raise ValueError("handler failed")


def build():
    cfg = DefaultApplicationConfig("app", "1.0")
    cfg.set_catch_exceptions(True)
    cfg.set_terminate_after_run(False)
    g = cfg.create_command("greet")
    g.set_description("Greets")
    g.add_argument("info", Argument.OPTIONAL, "An argument named like a style tag")
    g.add_option("yell", "y", Option.NO_VALUE, "Yell")
    g.add_option("tag", "t", Option.MULTI_VALUED, "Tags")
    g.set_handler(CallbackHandler(_handler("greet")))
    pn = cfg.create_command("pinned")                     # a command whose configuration was handed ONE parser object to use for every run
    pn.add_argument("one", Argument.OPTIONAL, "One")
    from clikit.args.default_args_parser import DefaultArgsParser
    pn.set_args_parser(DefaultArgsParser())
    pn.set_handler(CallbackHandler(_handler("pinned")))
    mk = cfg.create_command("mark")                       # a handler that teaches ITS run's formatters a new style ...
    mk.set_handler(CallbackHandler(_mark))
    sh = cfg.create_command("show")                       # ... and one that uses the tag: unknown again in every other run
    sh.set_handler(CallbackHandler(_show))
    c = cfg.create_command("count")                       # the handler is given as a factory (a class): every run gets a handler of its own
    c.set_handler(Counter)
    n = cfg.create_command("num")
    n.add_argument("n", Argument.REQUIRED | Argument.INTEGER, "A number")
    n.set_handler(CallbackHandler(_handler("num")))
    lo = cfg.create_command("loose")
    lo.add_argument("one", Argument.OPTIONAL, "One")
    lo.enable_lenient_args_parsing()
    lo.set_handler(CallbackHandler(_handler("loose")))
    r = cfg.create_command("remote")                      # a strict command with a lenient sub-command
    r.set_handler(CallbackHandler(_handler("remote")))
    ra = r.create_sub_command("add")
    ra.add_argument("name", Argument.REQUIRED, "Name")
    ra.enable_lenient_args_parsing()
    ra.set_handler(CallbackHandler(_handler("remote add")))
    f = cfg.create_command("fail")
    f.set_handler(CallbackHandler(_failing))
    return ConsoleApplication(cfg)


def _run(app, line):
    out, err = BufferedOutputStream(), BufferedOutputStream()
    del CALLS[:]
    status = app.run(StringArgs(line), StringInputStream(""), out, err)
    return (status, out.fetch(), err.fetch(), list(CALLS))


def _shared_runs(idx):
    app = build()
    return [_run(app, LINES[k]) for k in idx]


def _fresh_run(k):
    return _run(build(), LINES[k])


def _sequence_case(idx):
    # the shared application runs the whole sequence in one forked child; every reference run gets a child of its own, so that
    # neither the application object nor process-wide state (class-level caches) of earlier runs can reach the reference
    got = isolated(_shared_runs, idx)
    for i, k in enumerate(idx):
        if got[i] != isolated(_fresh_run, k):
            return False
    return True


def sequence(k1: int, k2: int, k3: int, k4: int) -> bool:
    """
    pre: 0 <= k1 < len(LINES) and 0 <= k2 < len(LINES) and 0 <= k3 < len(LINES) and 0 <= k4 < len(LINES)
    pre: k1 == PART["k1"] and (PART.get("k2") is None or k2 == PART["k2"])
    pre: PART["n"] > 3 or k4 == 0
    pre: not PART.get("short") or (k2 in SHORT and k3 in THIRD)
    pre: PART.get("half") is None or (k2 in SHORT[: len(SHORT) // 2]) == (PART["half"] == 0)
    post: _
    """
    n = len(LINES) - 1
    idx = [conc_int(k, 0, n) for k in (k1, k2, k3, k4)][: PART["n"]]
    return _sequence_case(idx)


def _same_list_case(k1, k2):
    """Two runs fed from ONE argv list object (a caller that keeps its list): each run sees the command line the list spells."""
    from clikit.args.argv_args import ArgvArgs
    lines = [["greet", "bob"], ["help", "greet"], ["num", "5"], ["greet", "--zz"]]
    app = build()
    outs = []
    for k in (k1, k2):
        lst = ["app"] + lines[k]
        keep = list(lst)
        res = []
        for _ in range(2):
            out, err = BufferedOutputStream(), BufferedOutputStream()
            del CALLS[:]
            status = app.run(ArgvArgs(lst), StringInputStream(""), out, err)
            res.append((status, out.fetch(), err.fetch(), list(CALLS)))
        if lst != keep or res[0] != res[1]:
            return False
        outs.append(res[0])
    return True


def same_list(k1: int, k2: int) -> bool:
    """
    pre: 0 <= k1 <= 3 and 0 <= k2 <= 3
    post: _
    """
    return isolated(_same_list_case, conc_int(k1, 0, 3), conc_int(k2, 0, 3))


def sequence_twin(k1: int, k2: int, k3: int, k4: int) -> bool:
    """
    pre: k1 == 8 and 0 <= k2 < len(LINES) and k3 == 0 and k4 == 0
    post: _
    """
    # reachability twin: after a failing help request a too-many-arguments line is still rejected (status 1) and compared
    k2 = conc_int(k2, 0, len(LINES) - 1)
    return not (LINES[k2] == "num 1 2" and isolated(_shared_runs, [8, k2])[1][0] == 1 and _sequence_case([8, k2]))


# ---------------------------------------------------------------- styles

KINDS = ["borderless", "compact", "ascii", "solid"]


def _render_table(style, rows=None):
    t = Table(style)
    t.set_header_row(["H1", "H2"])
    for r in (rows or [["a", "bb"], ["ccc", "d"]]):
        t.add_row(list(r))
    io = BufferedIO()
    t.render(io)
    return io.fetch_output()


def _customise(style, how):
    if how == 0:
        style.border_style.line_hc_char = "#"
    elif how == 1:
        style.border_style.line_vc_char = "!"
    elif how == 2:
        style.set_column_alignment(1, Alignment.RIGHT)
    elif how == 3:
        style.cell_format = "[{}]"
    else:
        style.border_style.crossing_c_char = "*"


def _style_case(first, second, how, third):
    s1 = getattr(TableStyle, KINDS[first])()
    before = _render_table(s1)
    s2 = getattr(TableStyle, KINDS[second])()          # creating another style object ...
    if _render_table(s1) != before:
        return False
    _customise(s2, how)                                  # ... or customising it ...
    if _render_table(s1) != before:
        return False
    s3 = getattr(TableStyle, KINDS[third])()           # ... never changes a table built with the first one,
    if _render_table(s1) != before:
        return False
    fresh = getattr(TableStyle, KINDS[first])()        # and a style created afterwards looks like one created before
    if _render_table(fresh) != before:
        return False
    # border style factories as well
    for name in ("none", "ascii", "solid"):
        b1 = getattr(BorderStyle, name)()
        snapshot = dict(vars(b1))
        b2 = getattr(BorderStyle, name)()
        b2.line_ht_char = "~"
        b2.corner_tl_char = "@"
        if dict(vars(b1)) != snapshot or dict(vars(getattr(BorderStyle, name)())) != snapshot:
            return False
    return True


def styles(first: int, second: int, how: int, third: int) -> bool:
    """
    pre: 0 <= first <= 3 and 0 <= second <= 3 and 0 <= how <= 4 and 0 <= third <= 3
    post: _
    """
    return untraced(_style_case, conc_int(first, 0, 3), conc_int(second, 0, 3), conc_int(how, 0, 4), conc_int(third, 0, 3))


# ---------------------------------------------------------------- rendering twice

def _boom(depth):
    if depth == 0:
        raise ValueError("boom <b>x</b>")
    _boom(depth - 1)


def _twice_case(kind, variant):
    if kind == 0:
        style = getattr(TableStyle, KINDS[variant % 4])()
        t = Table(style)
        t.set_header_row(["H1", "H2"])
        t.add_row(["a b c d e f g h i j k l m n o p q r s t u v w x y z" * 3, "1"])
        t.add_row(["x", "2"])
        io1, io2 = BufferedIO(), BufferedIO()
        t.render(io1)
        t.render(io2)
        return io1.fetch_output() == io2.fetch_output() and io1.fetch_output() != ""
    app = build()
    if kind == 1:
        comp = ApplicationHelp(app) if variant % 2 == 0 else CommandHelp(app.get_command(["greet", "num", "loose", "help"][variant % 4]))
        io1, io2 = BufferedIO(), BufferedIO()
        comp.render(io1)
        comp.render(io2)
        return io1.fetch_output() == io2.fetch_output() and io1.fetch_output() != ""
    if kind == 3:
        from clikit.ui.components.choice_question import ChoiceQuestion
        import clikit.ui.components.question as qmod
        qmod.Question._has_stty_available = lambda self: False
        q = ChoiceQuestion("Pick", ["a", "b", "c"])
        q.set_max_attempts([None, 2, 3, 4][variant % 4])
        script = ["zz\nb\n", "b\n", "zz\nzz\nb\n"][variant % 3] if variant % 4 != 1 or variant % 3 != 2 else "zz\nb\n"
        outs = []
        for _ in range(2):                       # the same question object presented twice with the same input
            io = BufferedIO(script)
            try:
                outs.append(("ok", q.ask(io), io.fetch_error()))
            except Exception as e:
                outs.append(("exc", type(e).__name__, io.fetch_error()))
        return outs[0] == outs[1] and outs[0][0] == "ok" and outs[0][1] == "b"
    try:
        _boom(variant % 3)
    except ValueError as e:
        outs = []
        for _ in range(2):
            io = BufferedIO()
            io.set_verbosity([0, 1, 2, 4][variant % 4])
            ExceptionTrace(e).render(io)
            outs.append(io.fetch_output())
        return outs[0] == outs[1] and "boom" in outs[0]
    return False


def twice(kind: int, variant: int) -> bool:
    """
    pre: 0 <= kind <= 3 and 0 <= variant <= 11
    post: _
    """
    return untraced(_twice_case, conc_int(kind, 0, 3), conc_int(variant, 0, 11))


def conditions(tier):
    quick = tier == "quick"
    t = 120 if quick else 1500
    conds = []
    plan = [(k1, None, 3) for k1 in (SHORT if quick else range(len(LINES)))]
    halves = [0, 1] if quick else [None]
    if not quick:
        plan += [(k1, k2, 4) for k1 in (3, 8, 10, 13) for k2 in range(len(LINES))]       # 4 runs after an invalid line / failing help / unknown option / --ansi help
    for k1, k2, nruns in plan:
        for half in (halves if k2 is None else [None]):
            conds.append({"name": "sequence[%r%s%s]" % (LINES[k1], "" if k2 is None else "," + repr(LINES[k2]), "" if half is None else ",second line from half %d of the sub-menu" % (half + 1)), "fn": sequence, "timeout": t, "part": {"k1": k1, "k2": k2, "n": nruns, "short": quick, "half": half},
                          "bounds": "runs: %r, then %s, each from %r, on one application vs fresh applications" % (LINES[k1], "2 more lines" if k2 is None else "%r and 2 more lines" % LINES[k2], LINES)})
    conds.append({"name": "sequence_twin", "fn": sequence_twin, "timeout": t, "expect": "refute", "part": {"k1": 8, "n": 2}, "bounds": "reachability twin"})
    conds.append({"name": "same_list", "fn": same_list, "timeout": t, "bounds": "two command lines, each run twice from one argv list object the caller keeps: both runs of a line are identical and the list is untouched"})
    conds.append({"name": "styles", "fn": styles, "timeout": t, "bounds": "first style kind x second kind x 5 in-place customisations x third kind; border style factories"})
    conds.append({"name": "twice", "fn": twice, "timeout": t, "bounds": "tables (4 styles, wrapped cells), help pages (application and 4 commands), error traces (3 depths x 4 verbosities) rendered twice; a choice question presented twice (4 attempt limits x 3 scripts)"})
    return conds

#!/verif/.venv/bin/python
# Replays a counterexample on the real code in /repo/src (no solver involved).
import os, sys, json
sys.path[:0] = ['/verif', '/repo/src']
from vf.replay import replay
ARGS = json.loads('{"k2": 2, "k3": 1, "l_default": true, "x_default": false, "a_disabled": true, "m_default": false}')
r = replay('harness.c03', "resolve3['sv',r0]", ARGS, 'quick')
print('REPRODUCED: ' + r if r else 'NOT-REPRODUCED')
sys.exit(1 if r else 0)

#!/bin/bash
# usage: ingest_seed.sh <property> <variant> [srcdir]   - verifies a sub-agent's seeded change in a scratch worktree of /repo HEAD
# (demo exits 0 pristine / 1 patched, repository suite unchanged) and, only then, copies it to /verif/seeded/<property>_<variant>/
ID=$1; V=$2; SRC=${3:-/tmp/seedwork5/out/$ID}
W=/tmp/seedcheck.$$
git -C /repo worktree add -q --detach $W HEAD || exit 3
trap 'git -C /repo worktree remove --force $W' EXIT
cd $W
PYTHONPATH=$W/src timeout 300 /venv/bin/python $SRC/demo_$V.py > /tmp/ingest.$$.a 2>&1; A=$?
git apply $SRC/patch_$V.diff || { echo "$ID_$V: PATCH DOES NOT APPLY"; exit 3; }
if git diff --name-only | grep -qv '^src/clikit/'; then echo "${ID}_$V: touches files outside src/clikit"; exit 3; fi
PYTHONPATH=$W/src timeout 300 /venv/bin/python $SRC/demo_$V.py > /tmp/ingest.$$.b 2>&1; B=$?
T=$(PYTHONPATH=$W/src /venv/bin/python -m pytest -q -p no:cacheprovider 2>&1 | tail -1)
echo "${ID}_$V: demo pristine=$A patched=$B suite: $T"
tail -3 /tmp/ingest.$$.b | cut -c1-300
rm -f /tmp/ingest.$$.a /tmp/ingest.$$.b
case "$T" in *"1 failed, 396 passed, 3 skipped, 1 error"*) ;; *) echo "${ID}_$V: SUITE RESULT DIFFERS"; exit 4;; esac
[ "$A" = 0 ] && [ "$B" = 1 ] || { echo "${ID}_$V: DEMO DOES NOT DISCRIMINATE"; exit 4; }
D=/verif/seeded/${ID}_$V; mkdir -p $D
cp $SRC/patch_$V.diff $D/patch.diff; cp $SRC/demo_$V.py $D/demo.py; cp $SRC/notes.md $D/notes.md
echo "${ID}_$V: ingested"

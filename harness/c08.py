"""C08 - splitting a command string never fails and inverts shell-style quoting.

E1 (CrossHair).  Symbolic command strings / tokens over small adversarial alphabets; the length is
the partition (one condition per length), so the union of conditions is "all strings up to N".
"""
from clikit.args.argv_args import ArgvArgs
from clikit.args.string_args import StringArgs
from clikit.args.token_parser import TokenParser

PROPERTY = "C08"
FUNCTIONS = ["TokenParser.parse/_parse/_parse_token/_parse_quoted_string/_parse_escape_sequence/_next",
             "StringArgs.__init__/tokens/option_tokens/has_option_token", "ArgvArgs.__init__/tokens/option_tokens/has_option_token"]
PART = {}
EXTRA_BOUNDS = "also: quoted tokens <= 2 chars over {a,space,tab,CR,LF,backslash}; raw_history: 11 command strings (incl. strings that end inside quotes, repeated '--', an optional-value option before '--') wrapped after another string was wrapped and run / shortened / extended, each case in a forked child, with the command and assignment the line resolves to."
BS = chr(92)
ALPHA = "a \t'\"" + BS + "-"
BOUNDS = {"quick": "totality: all strings of length <= 4 over {a,space,tab,',\",backslash,-}; unquoted split law: length <= 5 over {a,b,space,tab,-}; "
                   "inverse law: 1 token <= 3 chars and 2 tokens <= 2 chars over {a,space,',\",backslash,=,-,e-acute}, both quote styles, 6 separators; "
                   "StringArgs/ArgvArgs: 3 tokens <= 2 chars over {a,-}",
          "thorough": "totality: length <= 6; split law: length <= 7; inverse: 1 token <= 4, 2 tokens <= 3, 3 tokens <= 2; StringArgs/ArgvArgs: 4 tokens"}
OUTSIDE = ["strings longer than the stated lengths (property says 7 for totality)", "tokens of 4-5 characters in lists of 3-4 tokens",
           "characters outside the stated alphabets"]
STUBS = []
ASSUMPTIONS = ["quoting scheme of the statement: wrap in ' or \" and put a backslash before every embedded quote of either kind; a token is expressible iff it does not end in a backslash and has no backslash directly before a quote"]

SEPS = [" ", "\t", "  ", "\n", "\x0c", " \x0b "]          # "any whitespace": also form feed / vertical tab


def total(s: str) -> bool:
    """
    pre: len(s) == PART["n"]
    pre: all(c in ALPHA for c in s)
    post: _
    """
    p = TokenParser()
    toks = p.parse(s)
    # terminated, no exception, list of strings, cursor consumed the whole input
    return isinstance(toks, list) and all(isinstance(t, str) for t in toks) and getattr(p, "_cursor", len(s)) >= len(s)


def total_twin(s: str) -> bool:
    """
    pre: len(s) == PART["n"]
    pre: all(c in ALPHA for c in s)
    post: _
    """
    return len(TokenParser().parse(s)) < 2


def split_law(s: str) -> bool:
    """
    pre: len(s) == PART["n"]
    pre: all(c in "ab \t-\x0c" for c in s)
    post: _
    """
    return TokenParser().parse(s) == s.split()


def quote(t, style):
    q = "'" if style else '"'
    return q + t.replace('"', BS + '"').replace("'", BS + "'") + q


def expressible(t):
    if t.endswith(BS):
        return False
    for i in range(len(t) - 1):
        if t[i] == BS and t[i + 1] in "'\"":
            return False
    return True


TOK_ALPHA = "a '\"" + BS + "=-é"


def inverse1(t1: str, q1: bool) -> bool:
    """
    pre: len(t1) == PART["n"]
    pre: all(c in TOK_ALPHA for c in t1)
    pre: expressible(t1)
    post: _
    """
    return TokenParser().parse(quote(t1, q1)) == [t1]


def inverse2(t1: str, t2: str, q1: bool, q2: bool, sep: int) -> bool:
    """
    pre: len(t1) == PART["l1"] and len(t2) == PART["l2"]
    pre: all(c in TOK_ALPHA for c in t1) and all(c in TOK_ALPHA for c in t2)
    pre: expressible(t1) and expressible(t2)
    pre: 0 <= sep < len(SEPS)
    pre: PART.get("sep") is None or sep == PART["sep"]
    post: _
    """
    s = quote(t1, q1) + SEPS[sep] + quote(t2, q2)
    return TokenParser().parse(s) == [t1, t2]


def inverse3(t1: str, t2: str, t3: str, q1: bool, q2: bool, q3: bool) -> bool:
    """
    pre: len(t1) == PART["l1"] and len(t2) == PART["l2"] and len(t3) == PART["l3"]
    pre: all(c in TOK_ALPHA for c in t1) and all(c in TOK_ALPHA for c in t2) and all(c in TOK_ALPHA for c in t3)
    pre: expressible(t1) and expressible(t2) and expressible(t3)
    post: _
    """
    s = quote(t1, q1) + " " + quote(t2, q2) + "\t" + quote(t3, q3)
    return TokenParser().parse(s) == [t1, t2, t3]


TOK_WS = "a \t\r\n" + BS


def inverse_ws(t1: str, t2: str, q1: bool, q2: bool) -> bool:
    """
    pre: len(t1) == PART["l1"] and len(t2) == PART["l2"]
    pre: all(c in TOK_WS for c in t1) and all(c in TOK_WS for c in t2)
    pre: expressible(t1) and expressible(t2)
    post: _
    """
    # whitespace of every kind INSIDE a quoted token (space, tab, CR, LF and their combinations) is kept as it is
    return TokenParser().parse(quote(t1, q1) + "\r\n" + quote(t2, q2)) == [t1, t2]


def inverse_twin(t1: str, q1: bool) -> bool:
    """
    pre: len(t1) == 2
    pre: all(c in TOK_ALPHA for c in t1)
    pre: expressible(t1)
    post: _
    """
    # reachability twin: some expressible token contains a quote (so the escaping path is exercised)
    return TokenParser().parse(quote(t1, q1)) == [t1] and "'" not in t1


ARG_ALPHA = "a-"


def _prefix_before_dd(tokens):
    out = []
    for t in tokens:
        if t == "--":
            break
        out.append(t)
    return out


def raw_equiv(t1: str, t2: str, t3: str, probe: str) -> bool:
    """
    pre: len(t1) == PART["l"][0] and len(t2) == PART["l"][1] and len(t3) == PART["l"][2] and len(probe) == PART["l"][3]
    pre: all(c in ARG_ALPHA for c in t1) and all(c in ARG_ALPHA for c in t2) and all(c in ARG_ALPHA for c in t3)
    pre: all(c in ARG_ALPHA for c in probe)
    post: _
    """
    tokens = [t for t in [t1, t2, t3] if t != ""]
    argv = ["prog"] + tokens
    a = ArgvArgs(argv)
    s = StringArgs(" ".join(tokens))
    if argv != ["prog"] + tokens:       # wrapping must not alter the caller's list
        return False
    exp_opt = _prefix_before_dd(tokens)
    return (a.tokens == tokens and s.tokens == tokens
            and a.option_tokens == exp_opt and s.option_tokens == exp_opt
            and a.has_option_token(probe) == (probe in exp_opt)
            and s.has_option_token(probe) == (probe in exp_opt)
            and a.has_token(probe) == (probe in tokens) and s.has_token(probe) == (probe in tokens))


def raw_equiv_quoted(t1: str, t2: str, q1: bool, q2: bool) -> bool:
    """
    pre: len(t1) == PART["l1"] and len(t2) == PART["l2"]
    pre: all(c in "a- '" for c in t1) and all(c in "a- '" for c in t2)
    post: _
    """
    tokens = [t1, t2]
    s = StringArgs(quote(t1, q1) + " " + quote(t2, q2))
    a = ArgvArgs(["prog"] + tokens)
    return s.tokens == a.tokens and s.option_tokens == a.option_tokens


# ---- wrapping is repeatable: what an earlier wrapper (or whoever used it) did to its token list never shows in a later wrapper of the same input
LINES = ["help deploy", "deploy", "deploy -h", "deploy x -- -h", "help", "", "deploy --file -- -y", 'say "hello', "it's", 'deploy "a b" \'c\'', "deploy x -- -- -y"]
# what each line's tokens are, and - where the statement fixes it - the command and assignment it resolves to (None = only string/argv equality is checked)
TOKENS = {0: ["help", "deploy"], 1: ["deploy"], 2: ["deploy", "-h"], 3: ["deploy", "x", "--", "-h"], 4: ["help"], 5: [], 6: ["deploy", "--file", "--", "-y"], 7: ["say", "hello"], 8: ["its"], 9: ["deploy", "a b", "c"], 10: ["deploy", "x", "--", "--", "-y"]}
EXPECT = {1: ("deploy", {}, {}), 3: ("deploy", {"target": "x", "more": ["-h"]}, {}), 6: ("deploy", {"target": "-y"}, {"file": "dflt"}), 9: ("deploy", {"target": "a b", "more": ["c"]}, {}), 10: ("deploy", {"target": "x", "more": ["--", "-y"]}, {})}


def _history_app():
    from clikit.api.args.format.argument import Argument
    from clikit.config.default_application_config import DefaultApplicationConfig
    from clikit.console_application import ConsoleApplication
    cfg = DefaultApplicationConfig("prog", "1.0")
    cfg.set_catch_exceptions(True)
    cfg.set_terminate_after_run(False)
    with cfg.command("deploy") as c:
        from clikit.api.args.format.option import Option
        c.add_argument("target", Argument.OPTIONAL)
        c.add_argument("more", Argument.MULTI_VALUED)
        c.add_option("file", "f", Option.OPTIONAL_VALUE, None, "dflt")
        c.set_handler_method("handle")
        c.set_handler(type("H", (), {"handle": lambda self, args, io: 0})())
    return ConsoleApplication(cfg)


def _history_case(i1, how, i2):
    from clikit.io.buffered_io import BufferedIO
    l1, l2 = LINES[i1], LINES[i2]
    app = _history_app()
    first = StringArgs(l1)
    if how == 0:
        from clikit.io.input_stream.string_input_stream import StringInputStream
        app.run(first, StringInputStream(""), BufferedIO().output.stream, BufferedIO().error_output.stream)
    elif how == 1 and first.tokens:
        del first.tokens[0]
    elif how == 2:
        first.tokens.append("zz")
    argv = ["prog"] + list(TOKENS[i2])
    keep = list(argv)
    s, a = StringArgs(l2), ArgvArgs(argv)
    if argv != keep or s.tokens != TOKENS[i2] or a.tokens != TOKENS[i2] or s.option_tokens != a.option_tokens:
        return False
    fresh = _history_app()
    outs = []
    for raw in (s, a):
        try:
            rc = fresh.resolve_command(raw)
            outs.append((rc.command.name, rc.args.arguments(False), {k: v for k, v in rc.args.options(False).items() if k == "file"}))
        except Exception as e:  # noqa
            outs.append((type(e).__name__, str(e)))
    if i2 in EXPECT and outs[0] != EXPECT[i2]:
        return False                  # tokens after the first '--' are positional; quoted tokens arrive whole
    return outs[0] == outs[1]


def raw_history(i1: int, how: int, i2: int) -> bool:
    """
    pre: 0 <= i1 < len(LINES) and 0 <= i2 < len(LINES) and 0 <= how <= 2
    post: _
    """
    from vf.sym import conc_int, isolated
    # each case in a forked child: process-wide state of the code under test (a shared tokenizer, a cache) then comes from THIS case's history only
    return isolated(_history_case, conc_int(i1, 0, len(LINES) - 1), conc_int(how, 0, 2), conc_int(i2, 0, len(LINES) - 1))


def conditions(tier):
    quick = tier == "quick"
    t = 90 if quick else 400
    conds = []
    for n in range(0, (4 if quick else 6) + 1):
        conds.append({"name": "total[len=%d]" % n, "fn": total, "timeout": t, "part": {"n": n},
                      "bounds": "all strings of length %d over {a,space,tab,',\",backslash,-}" % n})
    conds.append({"name": "total_twin", "fn": total_twin, "timeout": t, "part": {"n": 3}, "expect": "refute", "bounds": "reachability twin"})
    for n in range(0, (5 if quick else 7) + 1):
        conds.append({"name": "split_law[len=%d]" % n, "fn": split_law, "timeout": t, "part": {"n": n},
                      "bounds": "all strings of length %d over {a,b,space,tab,form feed,-}" % n})
    for n in range(0, (3 if quick else 4) + 1):
        conds.append({"name": "inverse1[len=%d]" % n, "fn": inverse1, "timeout": t, "part": {"n": n},
                      "bounds": "one expressible token of length %d, both quote styles" % n})
    nmax = 2 if quick else 3
    for l1 in range(0, nmax + 1):
        for l2 in range(0, nmax + 1):
            for sep in ([None] if l1 + l2 < 3 else range(len(SEPS))):
                conds.append({"name": "inverse2[%d,%d%s]" % (l1, l2, "" if sep is None else ",sep%d" % sep), "fn": inverse2, "timeout": t,
                              "part": {"l1": l1, "l2": l2, "sep": sep},
                              "bounds": "two expressible tokens of lengths %d,%d; 2x2 quote styles; %s" % (l1, l2, "6 separators" if sep is None else "separator %r" % SEPS[sep])})
    if not quick:
        for l1 in range(0, 3):
            for l2 in range(0, 3):
                for l3 in range(0, 3):
                    conds.append({"name": "inverse3[%d,%d,%d]" % (l1, l2, l3), "fn": inverse3, "timeout": t, "part": {"l1": l1, "l2": l2, "l3": l3},
                                  "bounds": "three expressible tokens of lengths %d,%d,%d; 2^3 quote styles" % (l1, l2, l3)})
    for l1 in range(0, (2 if quick else 3) + 1):
        for l2 in range(0, 3):
            conds.append({"name": "inverse_ws[%d,%d]" % (l1, l2), "fn": inverse_ws, "timeout": t, "part": {"l1": l1, "l2": l2},
                          "bounds": "two quoted tokens of lengths %d,%d over {a,space,tab,CR,LF,backslash} (backslash not last), 2x2 quote styles, separated by CR LF" % (l1, l2)})
    conds.append({"name": "raw_history", "fn": raw_history, "timeout": t,
                  "bounds": "a command string from %r wrapped and then run through an application / its token list shortened / extended; afterwards a second wrapper of any of the strings: tokens, option tokens and the command and arguments it resolves to equal those of the argv form" % (LINES,)})
    conds.append({"name": "inverse_twin", "fn": inverse_twin, "timeout": t, "expect": "refute", "bounds": "reachability twin"})
    import itertools
    for ls in itertools.product(*([[0, 1, 2]] * 3)):
        if list(ls) != sorted(ls, key=lambda x: x == 0):   # empty tokens (= absent) only at the end
            continue
        for lp in (1, 2):
            conds.append({"name": "raw_equiv[%d%d%d,probe%d]" % (ls + (lp,)), "fn": raw_equiv, "timeout": t, "part": {"l": list(ls) + [lp]},
                          "bounds": "tokens of lengths %s over {a,-} (0 = absent), probe token of length %d" % (list(ls), lp)})
    for l1 in range(0, 3):
        for l2 in range(0, 3):
            conds.append({"name": "raw_equiv_quoted[%d,%d]" % (l1, l2), "fn": raw_equiv_quoted, "timeout": t, "part": {"l1": l1, "l2": l2},
                          "bounds": "2 quoted tokens of lengths %d,%d over {a,-,space,'}" % (l1, l2)})
    return conds

#!/bin/bash
# usage: run_all.sh quick|thorough [ids...]  - runs the registered checks one after the other on /repo, logs to /verif/evidence/logs/
TIER=${1:-quick}; shift
IDS="$@"; [ -z "$IDS" ] && IDS="C01 C02 C03 C04 C05 C06 C07 C08 C09 C10 C11 C12 C13 C14 C15 C16 C17 C18 C19 C20"
mkdir -p /verif/evidence/logs
for id in $IDS; do
  t0=$(date +%s)
  (cd /verif && timeout 14400 ./check $id $TIER) > /verif/evidence/logs/$id.$TIER.log 2>&1; rc=$?
  echo "$id $TIER rc=$rc secs=$(( $(date +%s) - t0 )) :: $(grep -E "^$id $TIER:" /verif/evidence/logs/$id.$TIER.log | cut -c1-200)"
done

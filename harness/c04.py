"""C04 - a run always ends in a valid exit status and never leaks a handler failure.

E1 (CrossHair).  The status kernel (Command.handle) takes an unbounded symbolic int; whole runs of
ConsoleApplication.run (exception catching on, terminate_after_run off, buffered streams) take a
symbolic message (finite alphabet, split up front because the formatter uses `re`), a symbolic
choice of handler outcome and exception class, and a symbolic pre-handle listener behaviour.
"""
import clikit.api.event.console_events as ce
from clikit.api.args.format.argument import Argument
from clikit.api.config.application_config import ApplicationConfig
from clikit.api.event.event_dispatcher import EventDispatcher
from clikit.api.exceptions import CliKitException
from clikit.args.argv_args import ArgvArgs
from clikit.config.default_application_config import DefaultApplicationConfig
from clikit.console_application import ConsoleApplication
from clikit.handler.callback_handler import CallbackHandler
from clikit.io.input_stream.string_input_stream import StringInputStream
from clikit.io.output_stream.buffered_output_stream import BufferedOutputStream

PROPERTY = "C04"
FUNCTIONS = ["Command.handle/_do_handle", "ConsoleApplication.run/exception_to_exit_code/resolve_command", "ExceptionTrace.render (simple and full)",
             "PreHandleEvent", "CallbackHandler.handle", "DefaultApplicationConfig.create_io"]
PART = {}
EXTRA_BOUNDS = "also: pre-handle listener handling with every int status (symbolic) and None/True/False/300/-1/255; handler next to a multi-line string with markup; option named like a sub-command; aliases equal to other commands' names; a rejected run followed by a good run on one application; every exception kind on ASCII-only output streams at every verbosity."
BOUNDS = {"quick": "handler result: every int; numeric strings str(n) for every int |n| <= 999; pinned floats/None/bools; exceptions: 9 classes x messages 'E'+c1+fragment+c2+'Z' (c1,c2 in {<,>,/,b,newline,e-acute} or empty, 8 tag fragments) x 4 verbosity switches; 3 listener behaviours",
          "thorough": "messages with up to 3 symbolic characters around the fragment"}
OUTSIDE = ["BaseExceptions other than KeyboardInterrupt (SystemExit, GeneratorExit)", "messages with more symbolic characters than stated",
           "an error report is NOT demanded for KeyboardInterrupt (the repository's own test requires empty output there); only the non-zero status and no leak",
           "exceptions whose __str__ itself raises"]
STUBS = ["streams are BufferedOutputStream/StringInputStream", "handler and listener are harness callables whose behaviour is selected by the symbolic inputs"]
ASSUMPTIONS = ["'error report printed' = the run wrote a non-empty text containing the message's visible characters (or, for simple reports, the message) to the output or error stream"]

STATE = {"calls": [], "result": None, "exc": None, "listener": 0}


from harness import raisers
from vf.sym import untraced


_NS = {}
exec(compile("def boom(msg):\n    raise ValueError(msg)\n", "<generated-no-source>", "exec"), _NS)

EXC_KINDS = ["ValueError", "CliKitException", "MyCliError", "CodedError", "StrCodedError", "KeyboardInterrupt", "chained", "sourceless", "Weird", "near-multiline-string"]


def _do_raise(kind, msg):
    raisers.do_raise(kind, msg, _NS)


def _handler(tag):
    def cb(args, io):
        opts = args.options(False)
        STATE["calls"].append((tag, args.arguments(), {k: opts[k] for k in opts if k == "flag"}))
        if STATE["exc"] is not None:
            _do_raise(STATE["exc"][0], STATE["exc"][1])
        return STATE["result"]
    return cb


def _listener(event, event_name, dispatcher):
    k = STATE["listener"]
    if k == 1:
        return                      # passes
    if k == 2:
        event.handled(True)
        event.set_status_code(STATE["lstatus"])
    if k == 3:
        raisers.listener_fail()


def _build(with_listener):
    cfg = DefaultApplicationConfig("app", "1.0")
    cfg.set_catch_exceptions(True)
    cfg.set_terminate_after_run(False)
    if with_listener:
        cfg.add_event_listener(ce.PRE_HANDLE, _listener)
    c = cfg.create_command("work")
    c.add_argument("name", Argument.OPTIONAL, "n")
    c.add_option("flag", "f")
    c.add_option("sub")                      # an option that is named like one of the command's sub-commands
    c.set_handler(CallbackHandler(_handler("work")))
    o = cfg.create_command("other")
    o.set_handler(CallbackHandler(_handler("other")))
    s = c.create_sub_command("sub")
    s.set_handler(CallbackHandler(_handler("work sub")))
    w2 = cfg.create_command("w2")            # registered later, with aliases that are the NAMES of other commands: those names still select their own commands
    w2.add_alias("work")
    w2.add_alias("other")
    w2.set_handler(CallbackHandler(_handler("w2")))
    s2 = c.create_sub_command("s2")
    s2.add_alias("sub")
    s2.set_handler(CallbackHandler(_handler("work s2")))
    return ConsoleApplication(cfg)


APP = _build(False)
APP_L = _build(True)
VERB = [[], ["-v"], ["-vv"], ["-vvv"]]


def _run(app, tokens):
    out, err = BufferedOutputStream(), BufferedOutputStream()
    del STATE["calls"][:]
    status = app.run(ArgvArgs(["app"] + tokens), StringInputStream(""), out, err)
    return status, out.fetch(), err.fetch()


def status_kernel(r: int) -> bool:
    """
    post: _
    """
    STATE["result"], STATE["exc"], STATE["listener"] = r, None, 0
    cmd = APP.get_command("work")
    s = cmd.handle(cmd.parse(ArgvArgs(["app", "work"])), None)
    exp = 0 if r == 0 else min(max(r, 1), 255)
    return isinstance(s, int) and 0 <= s <= 255 and s == exp


def status_kernel_twin(r: int) -> bool:
    """
    post: _
    """
    STATE["result"], STATE["exc"], STATE["listener"] = r, None, 0
    cmd = APP.get_command("work")
    return cmd.handle(cmd.parse(ArgvArgs(["app", "work"])), None) != 255


FLOATS = [0.0, 0.5, -0.25, 1.0, 254.9, 255.5, 1e9, -3.7, 1e-9]
OTHERS = [None, False, True, "", "0", "00", "1", "-5", "300", [], [0]]


def run_result_int(r: int, vi: int) -> bool:
    """
    pre: 0 <= vi <= 3
    post: _
    """
    STATE["result"], STATE["exc"], STATE["listener"] = r, None, 0
    status, out, err = _run(APP, ["work", "bob"] + VERB[vi])
    exp = 0 if r == 0 else min(max(r, 1), 255)
    return status == exp and STATE["calls"] == [("work", {"name": "bob"}, {})]


def run_result_numstr(n: int) -> bool:
    """
    pre: PART["lo"] <= n <= PART["hi"]
    post: _
    """
    STATE["result"], STATE["exc"], STATE["listener"] = str(n), None, 0
    status, out, err = _run(APP, ["work"])
    return status == min(max(n, 1), 255) and len(STATE["calls"]) == 1     # every str(n) is a truthy text


def run_result_other(i: int, isfloat: bool) -> bool:
    """
    pre: 0 <= i < 9
    post: _
    """
    pool = FLOATS if isfloat else OTHERS[:9]
    for k in range(9):
        if i == k:
            v = pool[k]
    STATE["result"], STATE["exc"], STATE["listener"] = v, None, 0
    status, out, err = _run(APP, ["work", "-f"])
    if not v:
        exp = 0
    else:
        exp = min(max(int(v), 1), 255)
    return status == exp and STATE["calls"] == [("work", {"name": None}, {"flag": True})]


MSG_ALPHA = "<>/b\né"
FRAGS = ["", "</info>", "<b>", "<error>", "</>", "<fg=red>x", "\\<", "<info>a</info>"]


def _conc(s, alphabet):
    out = ""
    for c in s:
        for a in alphabet:
            if c == a:
                out += a
                break
    return out


def _norm(text):
    # "style markup aside": drop tag-like text, escapes and ANSI codes on both sides before comparing
    import re
    text = re.sub(r"\x1b\[[0-9;]*m", "", text)
    return re.sub(r"<[^<>]*>", "", text).replace("\\", "").replace("<", "").replace(">", "")


def _visible(msg):
    import re
    return [w for w in re.split(r"\s+", _norm(msg)) if w]


def run_exception(m1: str, m2: str, frag: int) -> bool:
    """
    pre: len(m1) == PART["l1"] and len(m2) == PART["l2"]
    pre: all(c in MSG_ALPHA for c in m1) and all(c in MSG_ALPHA for c in m2)
    pre: 0 <= frag < len(FRAGS)
    pre: PART.get("frag") is None or frag == PART["frag"]
    post: _
    """
    kind, vi, lk = PART["kind"], PART["vi"], PART["listener"]
    f = ""
    for k in range(len(FRAGS)):
        if frag == k:
            f = FRAGS[k]
    msg = "E" + _conc(m1, MSG_ALPHA) + f + _conc(m2, MSG_ALPHA) + "Z"
    return untraced(_exception_case, kind, vi, lk, msg)       # everything is concrete from here on


def _exception_case(kind, vi, lk, msg):
    STATE["result"], STATE["exc"], STATE["listener"], STATE["lstatus"] = 0, (kind, msg), lk, 3
    app = APP_L if lk else APP
    try:
        status, out, err = _run(app, ["work", "x"] + VERB[vi])
    except KeyboardInterrupt:
        return False                      # a run never raises, whatever the handler raised
    if not (isinstance(status, int) and 0 <= status <= 255):
        return False
    if lk == 2:                       # the listener handled the command: its status, handler not run
        return status == 3 and STATE["calls"] == []
    if lk == 3:                       # the listener raised: reported, handler not run
        return status != 0 and STATE["calls"] == [] and "listener failed" in out + err
    if STATE["calls"] != [("work", {"name": "x"}, {})]:
        return False
    if status == 0:
        return False
    if EXC_KINDS[kind] == "KeyboardInterrupt":
        return True
    text = out + err
    if text == "":
        return False
    ntext = _norm(text)
    return all(w in ntext for w in _visible(msg))


def run_exception_twin(m1: str, m2: str, frag: int) -> bool:
    """
    pre: len(m1) == 1 and len(m2) == 0
    pre: all(c in MSG_ALPHA for c in m1)
    pre: 0 <= frag < len(FRAGS)
    post: _
    """
    msg = "E" + _conc(m1, MSG_ALPHA) + "Z"
    STATE["result"], STATE["exc"], STATE["listener"] = 0, (0, msg), 0
    status, out, err = _run(APP, ["work", "x"])
    return "ValueError" not in out     # twin: the full report really is printed


def _late_listener_case(kind, prio):
    """A pre-handle listener registered AFTER a first run takes part in the next run (handles / fails / passes)."""
    app = _build(False)
    STATE["result"], STATE["exc"], STATE["listener"], STATE["lstatus"] = 0, None, kind, 3
    s0, o0, e0 = _run(app, ["work", "x"])
    if s0 != 0 or len(STATE["calls"]) != 1:
        return False
    app.config.add_event_listener(ce.PRE_HANDLE, _listener, prio)
    s1, o1, e1 = _run(app, ["work", "x"])
    if kind == 1:
        return s1 == 0 and len(STATE["calls"]) == 1
    if kind == 2:
        return s1 == 3 and STATE["calls"] == []
    return s1 != 0 and STATE["calls"] == [] and "listener failed" in o1 + e1


def late_listener(kind: int, prio: int) -> bool:
    """
    pre: 1 <= kind <= 3 and -1 <= prio <= 1
    post: _
    """
    from vf.sym import conc_int
    return untraced(_late_listener_case, conc_int(kind, 1, 3), conc_int(prio, -1, 1))


def listener_status(r: int, vi: int) -> bool:
    """
    pre: 0 <= vi <= 3
    post: _
    """
    # a pre-handle listener that handles the event with ANY integer status: the run still answers with a status in 0..255 and runs no handler
    STATE["result"], STATE["exc"], STATE["listener"], STATE["lstatus"] = 0, None, 2, r
    vi = 0 if vi == 0 else (1 if vi == 1 else (2 if vi == 2 else 3))
    status, out, err = _run(APP_L, ["work"] + VERB[vi])
    return type(status) is int and 0 <= status <= 255 and (status == 0) == (r == 0) and STATE["calls"] == []


def listener_status_other(i: int) -> bool:
    """
    pre: 0 <= i < 6
    post: _
    """
    from vf.sym import conc_int
    i = conc_int(i, 0, 5)
    STATE["result"], STATE["exc"], STATE["listener"], STATE["lstatus"] = 0, None, 2, [None, True, False, 300, -1, 255][i]
    status, out, err = untraced(_run, APP_L, ["work"])
    return type(status) is int and 0 <= status <= 255 and (status == 0) == (i in (0, 2)) and STATE["calls"] == []


def _after_failed_run_case(bad, good):
    """One application: a run that is REJECTED (bad command line for `work`), then a good run of the same command: the handler gets the arguments of ITS line."""
    app = _build(False)
    STATE["result"], STATE["exc"], STATE["listener"] = 0, None, 0
    bad_line = [["work", "x", "--bogus"], ["work", "x", "y", "z"], ["work", "--flag=1"], ["nope"]][bad]
    s0, o0, e0 = _run(app, bad_line)
    if s0 == 0 or STATE["calls"]:
        return False
    good_line, want = [(["work"], {"name": None}), (["work", "q"], {"name": "q"}), (["work", "sub"], None)][good]
    s1, o1, e1 = _run(app, good_line)
    if s1 != 0 or len(STATE["calls"]) != 1:
        return False
    return STATE["calls"][0][0] == ("work" if want is not None else "work sub") and (want is None or STATE["calls"][0][1] == want)


def after_failed_run(bad: int, good: int) -> bool:
    """
    pre: 0 <= bad <= 3 and 0 <= good <= 2
    post: _
    """
    from vf.sym import conc_int
    return untraced(_after_failed_run_case, conc_int(bad, 0, 3), conc_int(good, 0, 2))


def _ascii_case(kind, vi, msg_i):
    from clikit.io.output_stream.stream_output_stream import StreamOutputStream
    msg = ["plain", "two\nlines", "<b>x</b>"][msg_i]
    STATE["result"], STATE["exc"], STATE["listener"] = 0, (kind, msg), 0
    import tempfile
    # real files opened with an ASCII encoding (what a pipe or log file under LANG=C is): writing anything else raises UnicodeEncodeError
    with tempfile.TemporaryFile("w+", encoding="ascii") as out, tempfile.TemporaryFile("w+", encoding="ascii") as err:
        del STATE["calls"][:]
        status = APP.run(ArgvArgs(["app", "work", "x"] + VERB[vi]), StringInputStream(""), StreamOutputStream(out), StreamOutputStream(err))
        out.seek(0)
        err.seek(0)
        text = out.read() + err.read()
    return type(status) is int and 1 <= status <= 255 and (EXC_KINDS[kind] == "KeyboardInterrupt" or text != "")


def run_exception_ascii(kind: int, vi: int, msg_i: int) -> bool:
    """
    pre: 0 <= kind < len(EXC_KINDS) and 0 <= vi <= 3 and 0 <= msg_i <= 2
    post: _
    """
    from vf.sym import conc_int
    return untraced(_ascii_case, conc_int(kind, 0, len(EXC_KINDS) - 1), conc_int(vi, 0, 3), conc_int(msg_i, 0, 2))


def no_other_handler(which: int, r: int) -> bool:
    """
    pre: 0 <= which <= 5
    pre: -2 <= r <= 2
    post: _
    """
    STATE["result"], STATE["exc"], STATE["listener"] = r, None, 0
    from vf.sym import conc_int
    which = conc_int(which, 0, 5)
    tokens = [["work"], ["other"], ["work", "sub"], ["w2"], ["work", "-f", "--sub"], ["work", "--sub", "-f"]][which]
    if which >= 4:
        status, out, err = _run(APP, tokens)
        return [c[0] for c in STATE["calls"]] == ["work"]
    status, out, err = _run(APP, tokens)
    return [c[0] for c in STATE["calls"]] == [" ".join(tokens)]


def conditions(tier):
    quick = tier == "quick"
    t = 90 if quick else 600
    conds = [
        {"name": "status_kernel", "fn": status_kernel, "timeout": t, "bounds": "Command.handle, handler result = every int"},
        {"name": "status_kernel_twin", "fn": status_kernel_twin, "timeout": t, "expect": "refute", "bounds": "reachability twin"},
        {"name": "run_result_int", "fn": run_result_int, "timeout": t, "bounds": "whole run, handler result = every int, 4 verbosity switches"},
        {"name": "run_result_numstr[0..99]", "fn": run_result_numstr, "timeout": t, "part": {"lo": 0, "hi": 99}, "bounds": "handler result = str(n), 0 <= n <= 99"},
        {"name": "run_result_numstr[-99..-1]", "fn": run_result_numstr, "timeout": t, "part": {"lo": -99, "hi": -1}, "bounds": "handler result = str(n), -99 <= n <= -1"},
        {"name": "run_result_numstr[100..999]", "fn": run_result_numstr, "timeout": t, "part": {"lo": 100, "hi": 999}, "bounds": "handler result = str(n), 100 <= n <= 999"},
        {"name": "run_result_other", "fn": run_result_other, "timeout": t, "bounds": "None/False/True/''/numeric strings/lists and 9 pinned floats"},
        {"name": "no_other_handler", "fn": no_other_handler, "timeout": t, "bounds": "3 commands x result in -2..2"},
        {"name": "listener_status", "fn": listener_status, "timeout": t, "bounds": "pre-handle listener that handles the event with status = every int; 4 verbosity switches"},
        {"name": "listener_status_other", "fn": listener_status_other, "timeout": t, "bounds": "pre-handle listener that handles the event with status None / True / False / 300 / -1 / 255"},
        {"name": "after_failed_run", "fn": after_failed_run, "timeout": t, "bounds": "one application: a rejected run of a command (unknown option / surplus arguments / value on a flag / undefined command), then a good run: handler called once with the arguments of its own line"},
        {"name": "run_exception_ascii", "fn": run_exception_ascii, "timeout": t, "bounds": "every exception kind x 4 verbosity switches x 3 messages on output streams that can only encode ASCII: the run still answers with a status and a report"},
        {"name": "late_listener", "fn": late_listener, "timeout": t, "bounds": "pre-handle listener (passes / handles / raises) registered after a first run, priority -1/0/1"},
    ]
    for kind in range(len(EXC_KINDS)):
        simple = EXC_KINDS[kind] in ("CliKitException", "MyCliError", "KeyboardInterrupt")
        if quick:
            plan = [(vi, l1, l2, None) for vi in (0, 1, 2, 3) for (l1, l2) in [(0, 0), (1, 0), (0, 1), (1, 1)]]
        else:
            plan = [(vi, l1, l2, None) for vi in (0, 1, 2, 3) for (l1, l2) in [(0, 0), (1, 0), (0, 1), (1, 1), (2, 0)]] + [(vi, l1, l2, None) for vi in (0, 3) for (l1, l2) in [(2, 1), (1, 2)]]
        for vi, l1, l2, f in plan:
            conds.append({"name": "run_exception[%s,v%d,len%d+%d%s]" % (EXC_KINDS[kind], vi, l1, l2, "" if f is None else ",frag%d" % f), "fn": run_exception, "timeout": t,
                          "part": {"kind": kind, "vi": vi, "listener": 0, "l1": l1, "l2": l2, "frag": f},
                          "bounds": "%s raised by the handler, verbosity switch %s, message 'E'+%d chars+fragment+%d chars+'Z' over {<,>,/,b,newline,e-acute}, %s" % (
                              EXC_KINDS[kind], VERB[vi], l1, l2, ("all %d tag fragments" % len(FRAGS)) if f is None else "fragment %r" % FRAGS[f])})
    for lk in (1, 2, 3):
        for kind in (0, 1):
            conds.append({"name": "run_listener[%s,%s]" % (["", "passes", "handles", "raises"][lk], EXC_KINDS[kind]), "fn": run_exception, "timeout": t,
                          "part": {"kind": kind, "vi": 0, "listener": lk, "l1": 1, "l2": 1, "frag": None},
                          "bounds": "pre-handle listener that %s; handler would raise %s" % (["", "passes", "handles with status 3", "raises"][lk], EXC_KINDS[kind])})
    conds.append({"name": "run_exception_twin", "fn": run_exception_twin, "timeout": t, "expect": "refute", "bounds": "reachability twin"})
    return conds

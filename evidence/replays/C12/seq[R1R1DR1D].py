#!/verif/.venv/bin/python
# Replays a counterexample on the real code in /repo/src (no solver involved).
import os, sys, json
sys.path[:0] = ['/verif', '/repo/src']
from vf.replay import replay
ARGS = json.loads('{"p0": 0, "p1": 0, "p2": 0, "p3": 0, "p4": 0, "s0": true, "s1": false, "s2": false, "s3": false, "s4": false}')
r = replay('harness.c12', 'seq[R1R1DR1D]', ARGS)
print('REPRODUCED: ' + r if r else 'NOT-REPRODUCED')
sys.exit(1 if r else 0)

"""Format skeletons shared by the parser harnesses (C01, C02, C05).

Every skeleton is built through the repository's own ArgsFormat / ArgsFormatBuilder at import time
(concrete); the harness contracts only put symbolic *tokens* and symbolic *assignments* through them.
"""
from clikit.api.args.format.args_format import ArgsFormat
from clikit.api.args.format.args_format_builder import ArgsFormatBuilder
from clikit.api.args.format.argument import Argument
from clikit.api.args.format.command_name import CommandName
from clikit.api.args.format.option import Option

O, A = Option, Argument


class Opt:
    def __init__(self, long, short, mode, typ="str", nullable=False, default=None):
        self.long, self.short, self.mode, self.typ, self.nullable, self.default = long, short, mode, typ, nullable, default

    def build(self):
        flags = {"flag": O.NO_VALUE, "req": O.REQUIRED_VALUE, "opt": O.OPTIONAL_VALUE, "multi": O.MULTI_VALUED}[self.mode]
        flags |= {"str": O.STRING, "int": O.INTEGER, "bool": O.BOOLEAN, "float": O.FLOAT}[self.typ]
        if self.nullable:
            flags |= O.NULLABLE
        return Option(self.long, self.short, flags, "d", self.default)

    def unset_value(self):
        if self.mode == "flag":
            return False
        if self.mode == "multi":
            return self.default if self.default is not None else []
        return self.default


class Arg:
    def __init__(self, name, kind, typ="str", default=None):
        self.name, self.kind, self.typ, self.default = name, kind, typ, default

    def build(self):
        flags = {"req": A.REQUIRED, "opt": A.OPTIONAL, "multi": A.MULTI_VALUED | A.OPTIONAL, "multireq": A.MULTI_VALUED | A.REQUIRED}[self.kind]
        flags |= {"str": A.STRING, "int": A.INTEGER, "bool": A.BOOLEAN, "float": A.FLOAT}[self.typ]
        return Argument(self.name, flags, "d", self.default)

    def unset_value(self):
        if self.kind.startswith("multi"):
            return self.default if self.default is not None else []
        return self.default


class Skel:
    """All skeletons are VALID formats by construction.  If the library refuses to build one (or fails while doing so) that is a finding about
    the library, not about the harness: the failure is kept and raised from `.fmt`, i.e. inside the contract that uses the skeleton, where it
    becomes an ordinary counterexample that is replayed and reported."""

    def __init__(self, name, opts, args, cmds=(), base=None, warm=()):
        self.name, self.opts, self.args, self.cmds, self.base = name, list(opts), list(args), list(cmds), base
        self.warm = list(warm)      # (skeleton, well-formed tokens) pairs: other formats of the same tree that were used before this one is
        self._fmt, self._build_error = None, None
        try:
            elements = [CommandName(n, list(al)) for n, al in self.cmds] + [o.build() for o in self.opts] + [a.build() for a in self.args]
            self._fmt = ArgsFormat(elements, base.fmt if base else None)
        except Exception as e:  # noqa
            self._build_error = "%s: %s" % (type(e).__name__, e)
        self.all_opts = (base.all_opts if base else []) + self.opts
        self.all_args = (base.all_args if base else []) + self.args
        self.all_cmds = (base.all_cmds if base else []) + self.cmds

    @property
    def fmt(self):
        if self._build_error is not None:
            raise RuntimeError("building the valid format skeleton %s failed: %s" % (self.name, self._build_error))
        return self._fmt

    @fmt.setter
    def fmt(self, value):
        self._fmt = value

    def opt(self, long):
        return [o for o in self.all_opts if o.long == long][0]


S1 = Skel("S1", [Opt("flag", "f", "flag"), Opt("opt", "o", "req")], [Arg("a", "req"), Arg("b", "opt")])
S2 = Skel("S2", [Opt("num", "n", "req", "int"), Opt("maybe", "m", "opt", "str", default="dflt")], [Arg("rest", "multi")])
S3 = Skel("S3", [Opt("mx", "x", "multi"), Opt("nn", None, "req", "int", nullable=True, default="7"), Opt("bb", "b", "req", "bool")], [Arg("a", "req", "int")])
S4 = Skel("S4", [Opt("flag", "f", "flag")], [Arg("host", "req")], cmds=[("server", ["srv"]), ("add", ["plus"])])
BASE5 = Skel("B5", [Opt("verbose", "v", "flag")], [Arg("first", "req")], cmds=[("top", ["t"])])
S5 = Skel("S5", [Opt("opt", "o", "req")], [Arg("second", "opt")], base=BASE5)
S6 = Skel("S6", [Opt("flag", "f", "flag")], [])
S7 = Skel("S7", [Opt("maybe", "m", "opt", "int"), Opt("ff", None, "opt", "float", default=None)], [Arg("a", "opt", "bool")])
S8 = Skel("S8", [], [Arg("a", "req"), Arg("rest", "multireq")])

SKELS = {s.name: s for s in (S1, S2, S3, S4, S5, S6, S7, S8)}

# a tree of formats, three levels deep: global <- command <- {sub-command a, sub-command b}; the format under test is used AFTER a sibling /
# a derived format of the same tree was used for a parse (formats are immutable: that must not matter)
ROOT9 = Skel("R9", [Opt("verbose", "v", "flag")], [])
MID9 = Skel("M9", [], [Arg("first", "req")], cmds=[("remote", ["rm"])], base=ROOT9)
LEAF9A = Skel("L9A", [], [Arg("name", "req"), Arg("extra", "opt")], cmds=[("add", ["a"])], base=MID9)
S9 = Skel("S9", [], [Arg("target", "opt", "int")], cmds=[("remove", ["del"])], base=MID9, warm=[(LEAF9A, ["remote", "add", "x", "y", "z"])])
S10 = Skel("S10", [], [Arg("first", "req")], cmds=[("remote", ["rm"])], base=ROOT9, warm=[(LEAF9A, ["remote", "add", "x", "y"])])
if MID9._build_error is None:
    S10.fmt = MID9.fmt       # the very format object the leaf is derived from
SKELS_CHAIN = {"S9": S9, "S10": S10}
SKELS_ALL = dict(SKELS)
SKELS_ALL.update(SKELS_CHAIN)

# options whose optional value has a default of the declared NATIVE type (an int for an INTEGER option, ...): used by C02
S11 = Skel("S11", [Opt("port", "p", "opt", "int", default=80), Opt("flag", "f", "flag")], [Arg("a", "opt")])
S12 = Skel("S12", [Opt("sure", "s", "opt", "bool", default=True), Opt("ratio", "r", "opt", "float", default=1.5)], [])
SKELS_NATIVE = {"S11": S11, "S12": S12}
SKELS_ALL.update(SKELS_NATIVE)

# two flags and two value options with short names: grouped short spellings (C01)
S13 = Skel("S13", [Opt("verbose", "v", "flag"), Opt("quiet", "q", "flag"), Opt("num", "n", "req", "int"), Opt("tag", "t", "opt", "str", default="dflt")], [Arg("a", "opt")])
SKELS_ALL["S13"] = S13

# two formats derived from ONE base format object; the sibling is used first (C02: surplus positionals must still be rejected)
BASE14 = Skel("B14", [Opt("verbose", "v", "flag")], [Arg("first", "req")])
S14A = Skel("S14A", [], [Arg("second", "opt"), Arg("third", "opt")], base=BASE14)
S14B = Skel("S14B", [Opt("flag", "f", "flag")], [], base=BASE14, warm=[(S14A, ["x", "y", "z"])])
SKELS_ALL["S14B"] = S14B
SKELS_ALL["B14"] = BASE14
BASE14.warm = [(S14A, ["x", "y", "z"])]

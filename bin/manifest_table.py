NOTES = ("Solver-based checking of the real code only (CrossHair/z3 symbolic execution and own AST->SMT encodings regenerated from /repo on every run). "
         "Exit 0 = held on everything explored (inconclusive conditions are reported in the evidence, never as proofs); exit 1 = replayed violation; exit 2 = harness/engine error.")
_PENDING = "check not built yet in this round; will be claimed once its harness exists (design in DESIGN.md section 3)"
CHECKS = {
 "C10": dict(
    text="For every writing entry point found by reflection on Output, SectionOutput, IO and BufferedIO (57 conditions), the solver closes all paths for EVERY Python int or None as flag word, the four verbosities and both quiet states: text reaches the stream iff not quiet and verbosity >= lowest requested level; monotonicity in the verbosity as a second contract.",
    note="Trusted: CrossHair+z3 model of CPython with the two runtime repairs (vf/chpatch.py); message fixed to one untagged character; BufferedOutputStream only.",
    technique="symbolic execution (CrossHair/z3), all paths closed over unbounded integer flags"),
}
NOT_APPLICABLE = {p: _PENDING for p in ["C01","C02","C03","C04","C05","C06","C07","C08","C09","C11","C12","C13","C14","C15","C16","C17","C18","C19","C20"]}

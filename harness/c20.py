"""C20 - error traces always render and show the real message and failing line.

E1 (CrossHair).  Index kernel with symbolic ints: Highlighter.code_snippet / line_numbers for ANY failing line number
and window sizes over concrete token-line lists.  Whole renders (finite domains split by the solver, real code
untraced because tokenize and `re` are C code): which statement of a generated source file raises, exception kind
(foreign, library, custom __str__, chained causes 1-2 deep, recursion 1/3/60 deep, source-less code), message pieces
with markup-like fragments / newline / non-ASCII, verbosity, simple mode, UTF-8 support, ignore pattern; a second
render in the same process with another ignore pattern.
"""
import re

from clikit.api.exceptions import CliKitException
from clikit.io.buffered_io import BufferedIO
from clikit.ui.components.exception_trace import ExceptionTrace, Highlighter

from harness.tracegen import blankfirst, inner, mlstring
from harness.tracegen.lib import outer
from vf.sym import conc_bool, conc_int, isolated, untraced

PROPERTY = "C20"
FUNCTIONS = ["ExceptionTrace.render/_render_exception/_render_trace/_render_snippet/_render_line/ignore_files_in", "Highlighter.code_snippet/highlighted_lines/split_to_lines/line_numbers"]
PART = {}
EXTRA_BOUNDS = 'also: raise sites in code compiled under an empty / relative file name, in a module imported through a symbolic link, next to a multi-line string with markup; ignore patterns for a pseudo file name, a path through the link, match-everything, one with a global inline flag; one ExceptionTrace object rendered to two I/Os of independent verbosity and UTF-8 capability.'
BOUNDS = {"quick": "kernel: every failing line 1..n, lines_before/after in [0,6] on sources of 1..9 lines; renders: 10 raise sites (top / middle / last line of the file, a file whose first line is blank, below a multi-line string containing a form feed and U+2028, "
                   "next to markup-like, tabbed and non-ASCII lines, multi-line statement, recursion 1/3/60, custom __str__, causes 1-2 deep, source-less) x 8 messages x 4 verbosities x simple on/off x UTF-8 on/off x 3 ignore patterns; two renders in one process",
          "thorough": "messages composed of two pieces; three renders in one process"}
OUTSIDE = ["the highlighter over a corpus of arbitrary real Python files: tokenize is C code and realises symbolic text - arbitrary source text is NOT decided by this family; only the generated files are covered (concrete sources)",
           "source lines that are part of a multi-line token (the statement exempts them)", "ANSI decorated traces"]
STUBS = []
ASSUMPTIONS = ["'message text, style markup aside' is compared after removing tag-like text and formatter escapes from both the message and the output"]

SOURCE = open(inner.__file__, encoding="utf-8").read()
SRC_LINES = SOURCE.split("\n")
MULTI_TOKEN_LINES = {3, 4, 5}          # the triple-quoted string: exempt from the verbatim clause
MESSAGES = ["plain", "two\nlines", "café →", "</info>", "<b>x</b> y", "a \\< b", "<error>", ""]
_NS = {}
exec(compile("def nosource(msg):\n    raise ValueError(msg)\n", "<generated-no-source>", "exec"), _NS)

# (how to raise, expected class name, expected failing line in inner.py or None)
BLANK_LINES = open(blankfirst.__file__, encoding="utf-8").read().split("\n")
ML_LINES = open(mlstring.__file__, encoding="utf-8").read().split("\n")
OTHER_SOURCES = {"blank_first": (BLANK_LINES, set()), "mlstring": (ML_LINES, {3, 4, 5, 6})}      # site -> (source lines, lines that belong to a multi-line token)
SITES = [("first", "ValueError", 2), ("markup", "KeyError", 10), ("multi", "RuntimeError", 16), ("deep1", "IndexError", 21), ("deep3", "IndexError", 21), ("deep60", "IndexError", 21),
         ("custom", "Custom", 27), ("chained1", "RuntimeError", 37), ("chained2", "RuntimeError", 36), ("last", "ValueError", 38), ("nosource", "ValueError", None), ("nosource_mid", "ValueError", 2), ("library", "CliKitException", None), ("blank_first", "ValueError", 4),
         ("mlstring", "ValueError", 8), ("emptyname", "ValueError", None), ("relname", "ValueError", None), ("symlinked", "IndexError", 21)]


def _raise(site, msg):
    if site == "deep1":
        outer.call("deep", 0, msg)
    elif site == "deep3":
        outer.call("deep", 3, msg)
    elif site == "deep60":
        outer.call("deep", 60, msg)
    elif site == "chained1":
        outer.call("chained", msg, 1)
    elif site == "chained2":
        outer.call("chained", msg, 2)
    elif site == "nosource":
        _NS["nosource"](msg)
    elif site == "nosource_mid":
        _NS2["via"](msg)
    elif site == "library":
        raise CliKitException(msg)
    elif site == "emptyname":
        _NS3["emptyname"](msg)
    elif site == "relname":
        _NS4["relname"](msg)
    elif site == "symlinked":
        OUTER_LNK.call("deep", 3, msg)
    elif site == "blank_first":
        blankfirst.blank_first(msg)
    elif site == "mlstring":
        mlstring.ml_inner(msg)
    else:
        outer.call(site, msg)


_NS2 = {"first": inner.first}
exec(compile("def via(msg):\n    first(msg)\n", "<generated-no-source-2>", "exec"), _NS2)

IGNORES = [None, r".*tracegen/lib/", r".*tracegen/inner", r"^<generated-no-source-2>$", r".*/lnk/", r".*", r"(?i).*TRACEGEN/LIB/"]
# (the last two: a pattern that matches EVERY frame - class name and message are shown all the same; a pattern with a global inline flag)
# frames whose code was compiled under unusual file names
_NS3, _NS4 = {}, {}
exec(compile("def emptyname(msg):\n    raise ValueError(msg)\n", "", "exec"), _NS3)
exec(compile("def relname(msg):\n    raise ValueError(msg)\n", "no such dir/x y.py", "exec"), _NS4)


def _linked_outer():
    """The library module imported a second time through a SYMLINKED directory: its frames report the path through the link."""
    import atexit
    import importlib.util
    import os
    import shutil
    import tempfile
    d = tempfile.mkdtemp(prefix="c20lnk")
    atexit.register(shutil.rmtree, d, True)
    os.symlink(os.path.dirname(outer.__file__), os.path.join(d, "lnk"))
    spec = importlib.util.spec_from_file_location("outer_lnk", os.path.join(d, "lnk", "outer.py"))
    mod = importlib.util.module_from_spec(spec)
    spec.loader.exec_module(mod)
    return mod


OUTER_LNK = _linked_outer()
SNIP = re.compile(r"^\s*(→|>)?\s*(\d+)(│|\|) ?(.*)$")


def _norm(text):
    text = re.sub(r"(?i)</?[a-z][a-z0-9,_=;-]*>|</>", "", text).replace("\\", "").replace("<", "").replace(">", "")
    return re.sub(r"\s+", " ", text).strip()


def _render(exc, verbosity, simple, utf8, ignore, trace=None, keep=None):
    io = BufferedIO(supports_utf8=utf8)
    io.set_verbosity([0, 1, 2, 4][verbosity])
    t = trace if trace is not None else ExceptionTrace(exc)
    if keep is not None:
        keep.append(t)
    if ignore is not None and trace is None:
        t.ignore_files_in(ignore)
    t.render(io, simple)
    return io.fetch_output()


def _check_render(out, site, cls, line, msg, verbosity, simple, utf8, ignore):
    shown_msg = ("custom<%s>" % msg) if site == "custom" else (repr(msg) if cls == "KeyError" else msg)
    # the message text is there: verbatim, or at least with nothing but its style tags taken out (backslashes, '<', '>' are text)
    ws = lambda t: re.sub(r"\s+", " ", t).strip()
    tagless = re.sub(r"(?i)</?[a-z][a-z0-9,_=;-]*>|</>", "", shown_msg)
    if ws(shown_msg) not in ws(out) and ws(tagless) not in ws(out):
        return False
    if simple:
        return True
    if cls not in out:
        return False                                   # ... and the class name
    tail = out[out.rfind("\n  at "):] if "\n  at " in out else out       # the failing frame's snippet follows the last "at <file>:<line> in <function>"
    rows = [SNIP.match(l) for l in tail.split("\n")[2:]]
    rows = [m for m in rows if m]
    if line is None:
        return True                                    # failing frame without source: nothing to show, nothing may fail
    # the snippet of the failing frame is the last consecutive block of numbered lines
    block = []
    for m in rows:
        if block and int(m.group(2)) != block[-1][0] + 1:
            block = []
        block.append((int(m.group(2)), m.group(1), m.group(4)))
    if not block:
        return False
    nums = [b[0] for b in block]
    if nums != list(range(nums[0], nums[0] + len(nums))):
        return False                                   # numbered consecutively
    marked = [b[0] for b in block if b[1]]
    if marked != [line]:
        return False                                   # exactly the failing line is marked
    arrow = "→" if utf8 else ">"
    if any(b[1] and b[1] != arrow for b in block):
        return False
    src_lines, exempt = OTHER_SOURCES.get(site, (SRC_LINES, MULTI_TOKEN_LINES))
    for n, _, text in block:
        if n in exempt:
            continue
        if n > len(src_lines) or text.rstrip() != src_lines[n - 1].rstrip():
            return False                               # source lines made of single-line tokens appear verbatim
    if site == "nosource_mid" and verbosity >= 1:        # an ignore pattern aimed at a pseudo file name
        listed = "<generated-no-source-2>" in out
        if (ignore == IGNORES[3] and verbosity < 3 and listed) or ((ignore is None or verbosity == 3) and not listed):
            return False
    if site == "symlinked" and verbosity >= 1:           # a pattern that matches the path as it is reported (through the symbolic link)
        listed = "/lnk/outer.py" in out
        if (ignore == IGNORES[4] and verbosity < 3 and listed) or ((ignore is None or verbosity == 3) and not listed):
            return False
    # frames under an ignored path are left out of the stack listing unless the verbosity is debug
    if verbosity >= 1 and site not in ("nosource", "library", "nosource_mid", "blank_first", "emptyname", "relname", "symlinked", "mlstring"):
        listed_outer = "tracegen/lib/outer.py" in out
        listed_inner_frames = len(re.findall(r"tracegen/inner\.py:\d+ in ", out))
        if ignore in (IGNORES[1], IGNORES[6]) and verbosity < 3 and listed_outer:
            return False
        if (ignore is None or verbosity == 3) and not listed_outer:
            return False                               # (sanity: without a pattern, or at debug verbosity, the frame is listed)
        if ignore == IGNORES[2] and verbosity < 3 and site in ("deep3", "deep60", "chained1", "chained2") and listed_inner_frames > 1:
            return False                               # only the failing frame itself (shown with its snippet) may name inner.py
    return True


def _render_case(site_i, msg_i, verbosity, simple, utf8, ignore_i, second_ignore_i, second_verbosity, same_trace=False, utf8_2=None):
    site, cls, line = SITES[site_i]
    msg = MESSAGES[msg_i]
    try:
        _raise(site, msg)
    except Exception as e:
        exc = e
    else:
        return False
    kept = []
    out = _render(exc, verbosity, simple, utf8, IGNORES[ignore_i], keep=kept)          # must not raise
    if not _check_render(out, site, cls, line, msg, verbosity, simple, utf8, IGNORES[ignore_i]):
        return False
    if second_ignore_i is not None:
        # a later render in the same process, with another ignore pattern, is judged on its own
        u2 = utf8 if utf8_2 is None else utf8_2
        if same_trace:
            # the SAME trace object rendered again, to an I/O with another verbosity / UTF-8 capability (its ignore pattern stays)
            out2 = _render(exc, second_verbosity, False, u2, IGNORES[ignore_i], trace=kept[0])
            if not _check_render(out2, site, cls, line, msg, second_verbosity, False, u2, IGNORES[ignore_i]):
                return False
        else:
            out2 = _render(exc, second_verbosity, False, u2, IGNORES[second_ignore_i])
            if not _check_render(out2, site, cls, line, msg, second_verbosity, False, u2, IGNORES[second_ignore_i]):
                return False
    return True


def render(msg_i: int, verbosity: int, simple: bool, utf8: bool, ignore_i: int) -> bool:
    """
    pre: 0 <= msg_i < len(MESSAGES) and 0 <= verbosity <= 3 and 0 <= ignore_i <= 6
    pre: PART.get("simple") is None or simple == PART["simple"]
    post: _
    """
    return isolated(_render_case, PART["site"], conc_int(msg_i, 0, len(MESSAGES) - 1), conc_int(verbosity, 0, 3), conc_bool(simple), conc_bool(utf8), conc_int(ignore_i, 0, 6), None, 0)


def render_twice(site_i: int, verbosity: int, ignore_i: int, second_ignore_i: int, second_verbosity: int) -> bool:
    """
    pre: 0 <= site_i < 10 and 0 <= verbosity <= 3 and 0 <= ignore_i <= 2 and 0 <= second_ignore_i <= 2 and 0 <= second_verbosity <= 3
    pre: site_i == PART["site"]
    post: _
    """
    return isolated(_render_case, conc_int(site_i, 0, 9), 0, conc_int(verbosity, 0, 3), False, True, conc_int(ignore_i, 0, 2), conc_int(second_ignore_i, 0, 2), conc_int(second_verbosity, 0, 3))


def render_same_trace(site_i: int, verbosity: int, utf8: bool, ignore_i: int, second_verbosity: int, utf8_2: bool) -> bool:
    """
    pre: 0 <= site_i < 10 and 0 <= verbosity <= 3 and 0 <= ignore_i <= 2 and 0 <= second_verbosity <= 3
    pre: site_i == PART["site"]
    post: _
    """
    return isolated(_render_case, conc_int(site_i, 0, 9), 0, conc_int(verbosity, 0, 3), False, conc_bool(utf8), conc_int(ignore_i, 0, 2), 0, conc_int(second_verbosity, 0, 3), True, conc_bool(utf8_2))


def render_twin(msg_i: int, verbosity: int, simple: bool, utf8: bool, ignore_i: int) -> bool:
    """
    pre: 0 <= msg_i < len(MESSAGES) and verbosity == 1 and not simple and utf8 and 0 <= ignore_i <= 2
    post: _
    """
    m, ig = conc_int(msg_i, 0, len(MESSAGES) - 1), conc_int(ignore_i, 0, 2)
    ok = isolated(_render_case, 1, m, 1, False, True, ig, None, 0)
    return not (ok and MESSAGES[m] == "</info>" and ig == 1)      # twin: the markup site with an ignore pattern really passes all snippet checks


# ---------------------------------------------------------------- index kernel, symbolic ints

KERNEL_SOURCES = ["x = 1", "a = 1\nb = 2\nc = 3", "\n".join("v%d = %d" % (i, i) for i in range(9))]
_TOKEN_LINES = [Highlighter(supports_utf8=False).highlighted_lines(src) for src in KERNEL_SOURCES]


def snippet_window(line: int, before: int, after: int) -> bool:
    """
    pre: 1 <= line <= len(_TOKEN_LINES[PART["src"]])
    pre: 0 <= before <= 6 and 0 <= after <= 6
    pre: PART.get("lines") is None or PART["lines"][0] <= line <= PART["lines"][1]
    post: _
    """
    lines = _TOKEN_LINES[PART["src"]]
    n = len(lines)
    hl = Highlighter(supports_utf8=False)
    numbered = hl.line_numbers(list(lines), line)
    if len(numbered) != n:
        return False
    offset = max(line - before - 1, 0)
    window = numbered[offset: offset + after + before + 1]
    # what code_snippet returns is exactly that slice (it re-tokenises the same source)
    got = hl.code_snippet(KERNEL_SOURCES[PART["src"]], line, before, after)
    if got != window:
        return False
    first = offset + 1
    marks = 0
    for k, row in enumerate(window):
        if ("%d|" % (first + k)) not in row.replace("</>", "").replace("<fg=default;options=dark>", "").replace("<fg=default;options=bold>", ""):
            return False               # numbering matches the position in the file
        if ">" in row.split("<fg=default")[0]:
            marks += 1
            if first + k != line:
                return False
    # the failing line is inside the window and is the only marked one
    return first <= line < first + len(window) and marks == 1


def snippet_twin(line: int, before: int, after: int) -> bool:
    """
    pre: 1 <= line <= 9 and 0 <= before <= 6 and 0 <= after <= 6
    post: _
    """
    PART["src"] = 2
    return not (snippet_window(line, before, after) and line == 9 and before == 2)


def conditions(tier):
    quick = tier == "quick"
    t = 120 if quick else 1500
    conds = []
    for i in range(len(KERNEL_SOURCES)):
        n = len(_TOKEN_LINES[i])
        for lo, hi in ([(1, n)] if n <= 3 else [(1, 2), (3, 4), (5, 6), (7, 8), (9, 9)]):
            conds.append({"name": "snippet_window[%d lines,line %d-%d]" % (n, lo, hi), "fn": snippet_window, "timeout": t, "part": {"src": i, "lines": [lo, hi]},
                          "bounds": "source of %d lines; failing line in [%d,%d], lines_before and lines_after symbolic ints in [0,6]" % (n, lo, hi)})
    conds.append({"name": "snippet_twin", "fn": snippet_twin, "timeout": t, "expect": "refute", "part": {"src": 2}, "bounds": "reachability twin"})
    for si, (site, cls, line) in enumerate(SITES):
      for simple in (False, True):
        conds.append({"name": "render[%s%s]" % (site, ",simple" if simple else ""), "fn": render, "timeout": t, "part": {"site": si, "simple": simple},
                      "bounds": "%s raised at %s; 8 messages x 4 verbosities x simple x UTF-8 x 7 ignore patterns (none, library path, the file itself, a pseudo file name, a path through a symbolic link, match-everything, one with a global inline flag)" % (cls, "inner.py:%d" % line if line else "code without source")})
    for si in range(10):
        conds.append({"name": "render_twice[%s]" % SITES[si][0], "fn": render_twice, "timeout": t, "part": {"site": si},
                      "bounds": "raise site %s; two renders in one process (forked per case) with independent ignore patterns and verbosities" % SITES[si][0]})
    for si in (0, 3, 4, 7):
        conds.append({"name": "render_same_trace[%s]" % SITES[si][0], "fn": render_same_trace, "timeout": t, "part": {"site": si},
                      "bounds": "raise site %s; ONE ExceptionTrace object rendered twice, to I/Os of independent verbosity and UTF-8 capability" % SITES[si][0]})
    conds.append({"name": "render_twin", "fn": render_twin, "timeout": t, "expect": "refute", "part": {"site": 1}, "bounds": "reachability twin"})
    return conds

#!/verif/.venv/bin/python
# Replays a counterexample on the real code in /repo/src (no solver involved).
import os, sys, json
sys.path[:0] = ['/verif', '/repo/src']
os.environ['VERIF_NO_EXCLUSIONS'] = '1'
from vf.replay import replay
ARGS = json.loads('{"s1": 0, "k1": 0, "l1": 4, "s2": 0, "k2": 4, "l2": 0, "s3": 0, "k3": 0, "l3": 1, "s4": 0, "k4": 0, "l4": 0}')
r = replay('harness.c15', 'known_C15-clear-n-wrapped', ARGS, 'quick')
print('REPRODUCED: ' + r if r else 'NOT-REPRODUCED')
sys.exit(1 if r else 0)

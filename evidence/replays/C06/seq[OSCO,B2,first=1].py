#!/verif/.venv/bin/python
# Replays a counterexample on the real code in /repo/src (no solver involved).
import os, sys, json
sys.path[:0] = ['/verif', '/repo/src']
from vf.replay import replay
ARGS = json.loads('{"a1": 1, "a2": 2, "a3": 0, "b1": 0, "b2": 2, "b3": 1, "c1": 2, "c2": 2, "c3": 0}')
r = replay('harness.c06', 'seq[OSCO,B2,first=1]', ARGS, 'quick')
print('REPRODUCED: ' + r if r else 'NOT-REPRODUCED')
sys.exit(1 if r else 0)

#!/verif/.venv/bin/python
# Replays a counterexample on the real code in /repo/src (no solver involved).
import os, sys, json
sys.path[:0] = ['/verif', '/repo/src']
from vf.replay import replay
ARGS = json.loads('{"a2": 0, "b1": 6, "b2": 1, "la": false, "lb": true}')
r = replay('harness.c05', "two_parses[S4>S4,'y']", ARGS, 'quick')
print('REPRODUCED: ' + r if r else 'NOT-REPRODUCED')
sys.exit(1 if r else 0)

"""C03 - the resolver selects the deepest command named by the leading tokens.

E1 (CrossHair), finite domains split by the solver: command names are dictionary keys in
CommandCollection, so tokens are drawn from a menu (names, aliases, wrong names, options, '--') by
symbolic indices; node attributes (default / anonymous / hidden / disabled) are symbolic bits.
Oracle: a reference `expected(tree, tokens)` written from the statement.
"""
from clikit.api.config.application_config import ApplicationConfig
from clikit.api.resolver.exceptions import CannotResolveCommandException
from clikit.args.argv_args import ArgvArgs
from clikit.args.string_args import StringArgs
from clikit.console_application import ConsoleApplication
from clikit.resolver.default_resolver import DefaultResolver

from vf.sym import conc_bool, conc_int, untraced

PROPERTY = "C03"
FUNCTIONS = ["DefaultResolver.resolve/process_arguments/process_options/process_default_sub_commands/process_default_commands/get_arguments_to_test/get_options_to_test/create_resolved_command",
             "ResolveResult", "ConsoleApplication.resolve_command/add_command", "Command.add_sub_command/named_sub_commands/default_sub_commands", "CommandCollection.get/__contains__", "CommandConfig.default/anonymous/hide/disable"]
PART = {}
EXTRA_BOUNDS = 'also: strictly parsing application (default command / default sub-command with a required argument), 16 lines, outcome = selected command or ITS parse error; commands with aliases added after the application resolved something, at top level and below a command.'
BOUNDS = {"quick": "one command tree of depth 3 / fan-out <= 4 with aliases (incl. hyphenated names and an anonymous sub-command); 3 tokens (18 x 18 x 11 menu literals: names, aliases, unknown names, short/long options, '--'); top-level command named/default/anonymous; 4 symbolic attribute bits (two default sub-commands, default sub-sub-command, disabled sub-command); hidden and disabled top-level commands present",
          "thorough": "third token from the full 14-literal menu, hidden/disabled/command-string variants, 4-token lines below s/sv"}
OUTSIDE = ["names longer than 2 characters, fan-out > 3, depth > 3", "which default wins when several default commands exist and only some parse (all commands are lenient here, so the first default is expected)",
           "empty-string tokens (the resolver treats '' like the end of the leading tokens)", "command lines longer than 4 tokens"]
STUBS = ["every command uses lenient argument parsing so that selection is observed independently of C01/C02 parse failures"]
ASSUMPTIONS = ["'continuing into that command's default sub-command' is one level deep (the statement says 'that command's default sub-command')"]

MENU = ["s", "sv", "a", "ad", "l", "x", "xx", "r", "h", "d", "zz", "-v", "--", "--a", "t-u", "a-d", "n", "z-z", "c", "u"]
MENU3 = ["a", "ad", "x", "xx", "zz", "-v", "--", "--a", "l", "a-d", "n", "u"]        # quick: third token


class Node:
    def __init__(self, name, aliases=(), default=False, anonymous=False, hidden=False, disabled=False, subs=()):
        self.name, self.aliases, self.default, self.anonymous, self.hidden, self.disabled, self.subs = name, list(aliases), default, anonymous, hidden, disabled, list(subs)


def make_tree(bits):
    l_default, r_default, r_anon, x_default, a_disabled, h_hidden, m_default, d_disabled = bits
    return [
        Node("s", ["sv"], subs=[
            Node("a", ["ad", "a-d"], disabled=a_disabled, subs=[Node("x", ["xx"], default=x_default), Node("y")]),
            Node("l", default=l_default, subs=[Node("u", ["uu"]), Node("w", default=True)]),      # ... one of them its own default: entered only when l is NAMED (one implicit step, no chains)      # a NAMED (possibly default) sub-command with sub-commands of its own
            Node("m", default=m_default),
            Node("n", default=True, anonymous=True, subs=[Node("a")]),      # an anonymous sub-command: cannot be named
        ]),
        Node("c", subs=[Node("p", default=True, anonymous=True), Node("q", anonymous=True)]),      # all sub-commands anonymous, one of them the default
        Node("t-u"),                                                        # a hyphenated command name
        Node("r", default=r_default or r_anon, anonymous=r_anon, subs=[Node("rr", default=True)]),      # the application default has a default sub-command of its own
        Node("h", hidden=h_hidden, subs=[Node("a")]),
        Node("d", disabled=d_disabled),
        Node("k", ["s", "kk"]),                                             # an alias that is the NAME of a command registered earlier: a command's own name always identifies that command
    ]


def _configure(cfg, node):
    for a in node.aliases:
        cfg.add_alias(a)
    if node.anonymous:
        cfg.anonymous()
    elif node.default:
        cfg.default()
    if node.hidden:
        cfg.hide()
    if node.disabled:
        cfg.disable()
    cfg.enable_lenient_args_parsing()
    for sub in node.subs:
        _configure(cfg.create_sub_command(sub.name), sub)


def build_app(tree):
    cfg = ApplicationConfig("app", "1.0")
    cfg.set_command_resolver(DefaultResolver())
    for node in tree:
        _configure(cfg.create_command(node.name), node)
    return ConsoleApplication(cfg)


def expected(tree, tokens):
    """Reference resolver written from the statement: returns the full name selected or 'UNDEFINED'."""
    leading = []
    for t in tokens:
        if t == "--" or t[:1] == "-":
            break
        leading.append(t)
    cur, path = None, []
    level = [n for n in tree if not n.disabled]
    for name in leading:
        hit = [n for n in level if not n.anonymous and n.name == name] or [n for n in level if not n.anonymous and name in n.aliases]
        if not hit:
            break
        cur = hit[0]
        path.append(cur.name)
        level = [n for n in cur.subs if not n.disabled]
    if cur is None:
        if leading:
            return "UNDEFINED"
        defaults = [n for n in tree if not n.disabled and n.default]
        return defaults[0].name if defaults else "NO-DEFAULT"
    defaults = [n for n in cur.subs if not n.disabled and n.default]
    if defaults:
        path.append(defaults[0].name)
    return " ".join(path)


def _case(bits, tokens, as_string):
    tree = make_tree(bits)
    app = build_app(tree)
    exp = expected(tree, tokens)
    raw = StringArgs(" ".join(tokens)) if as_string else ArgvArgs(["prog"] + tokens)
    try:
        got = app.resolve_command(raw).command.full_name
    except CannotResolveCommandException as e:
        got = "UNDEFINED" if "not defined" in str(e) else "NO-DEFAULT"
    return got == exp


def resolve3(k2: int, k3: int, r_mode: int, l_default: bool, x_default: bool, a_disabled: bool, m_default: bool) -> bool:
    """
    pre: 0 <= k2 < len(PART["menu2"]) and 0 <= k3 < len(PART["menu3"])
    pre: 0 <= r_mode <= 2
    pre: PART["r_mode"] is None or r_mode == PART["r_mode"]
    pre: PART.get("l_default") is None or l_default == PART["l_default"]
    post: _
    """
    r_mode = conc_int(r_mode, 0, 2)
    bits = (conc_bool(l_default), r_mode == 1, r_mode == 2, conc_bool(x_default), conc_bool(a_disabled), PART["h_hidden"], conc_bool(m_default), PART["d_disabled"])
    m2, m3 = PART["menu2"], PART["menu3"]
    tokens = [MENU[PART["k1"]], m2[conc_int(k2, 0, len(m2) - 1)], m3[conc_int(k3, 0, len(m3) - 1)]]
    return untraced(_case, bits, tokens, PART["as_string"])


def resolve4(k3: int, k4: int, l_default: bool, r_mode: int, x_default: bool, a_disabled: bool, m_default: bool) -> bool:
    """
    pre: 0 <= k3 < len(MENU3) and 0 <= k4 < len(MENU3)
    pre: 0 <= r_mode <= 2
    post: _
    """
    r_mode = conc_int(r_mode, 0, 2)
    bits = (conc_bool(l_default), r_mode == 1, r_mode == 2, conc_bool(x_default), conc_bool(a_disabled), False, conc_bool(m_default), True)
    tokens = [MENU[PART["k1"]], MENU[PART["k2"]], MENU3[conc_int(k3, 0, len(MENU3) - 1)], MENU3[conc_int(k4, 0, len(MENU3) - 1)]]
    return untraced(_case, bits, tokens, False)


def resolve0(l_default: bool, r_mode: int, m_default: bool, d_disabled: bool, k: int) -> bool:
    """
    pre: 0 <= r_mode <= 2 and 0 <= k <= 3
    post: _
    """
    # no leading tokens: nothing, only options, only a '--' tail
    r_mode = conc_int(r_mode, 0, 2)
    bits = (conc_bool(l_default), r_mode == 1, r_mode == 2, False, False, False, conc_bool(m_default), conc_bool(d_disabled))
    tokens = [[], ["-v"], ["--", "s"], ["--a", "s", "a"]][conc_int(k, 0, 3)]
    return untraced(_case, bits, tokens, False)


# ---- strict parsing: the default sub-command is entered also when the line does not fit its arguments (the failure is then ITS parse error)
def _strict_app():
    from clikit.api.args.format.argument import Argument
    cfg = ApplicationConfig("app", "1.0")
    cfg.set_command_resolver(DefaultResolver())
    r = cfg.create_command("remote")
    r.add_alias("rem")
    show = r.create_sub_command("show")
    show.default()
    show.add_argument("name", Argument.REQUIRED)
    r.create_sub_command("add").add_argument("url", Argument.OPTIONAL)
    top = cfg.create_command("top")
    top.default()
    top.add_argument("need", Argument.REQUIRED)
    cfg.create_command("other")
    return ConsoleApplication(cfg)


# (tokens, what resolve_command answers: the selected command, or the parse error OF the selected command - its missing argument names it)
STRICT_LINES = [([], ("CannotParseArgsException", '"need"')), (["-x"], ("NoSuchOptionException", "-x")), (["remote"], ("CannotParseArgsException", '"name"')), (["rem"], ("CannotParseArgsException", '"name"')),
                (["remote", "--"], ("CannotParseArgsException", '"name"')), (["remote", "--", "a", "b"], ("CannotParseArgsException", "Too many")),
                (["remote", "add"], "remote add"), (["remote", "add", "u", "v"], ("CannotParseArgsException", "Too many")), (["other", "p"], ("CannotParseArgsException", "Too many")),
                (["remote", "show"], ("CannotParseArgsException", '"name"')), (["remote", "show", "n"], "remote show"), (["remote", "n"], "remote show"), (["top", "n"], "top"), (["n"], ("CannotResolveCommandException", "n")),
                (["remote", "--", "n"], "remote show"), (["--", "n"], "top")]


def _strict_case(i, as_string):
    from clikit.api.args.exceptions import CannotParseArgsException, NoSuchOptionException
    tokens, want = STRICT_LINES[i]
    app = _strict_app()
    raw = StringArgs(" ".join(tokens)) if as_string else ArgvArgs(["prog"] + tokens)
    try:
        got = app.resolve_command(raw).command.full_name
    except (CannotParseArgsException, NoSuchOptionException, CannotResolveCommandException) as e:
        return isinstance(want, tuple) and type(e).__name__ == want[0]      # (the class of the error, not its wording; want[1] documents what it is about)
    return got == want


def resolve_strict(i: int, as_string: bool) -> bool:
    """
    pre: 0 <= i < len(STRICT_LINES)
    post: _
    """
    return untraced(_strict_case, conc_int(i, 0, len(STRICT_LINES) - 1), conc_bool(as_string))


# ---- commands added to a running application (after it has resolved something) are found by name AND by alias, at every level
def _late_case(first, where, spell):
    from clikit.api.command.command import Command
    from clikit.api.config.command_config import CommandConfig
    tree = make_tree((False, False, False, False, False, False, False, False))
    app = build_app(tree)
    if first == 1:
        app.resolve_command(ArgvArgs(["prog", "s", "a"]))
    elif first == 2:
        try:
            app.resolve_command(ArgvArgs(["prog", "nope"]))
        except CannotResolveCommandException:
            pass
    cc = CommandConfig("late")
    cc.add_alias("lt")
    cc.add_alias("l-8")
    cc.enable_lenient_args_parsing()
    if where == 0:
        app.add_command(cc)
        path, want = [], "late"
    else:
        parent = app.get_command("s")
        parent.add_sub_command(cc)
        path, want = ["sv" if spell == 2 else "s"], "s late"
    token = ["late", "lt", "l-8"][spell]
    return app.resolve_command(ArgvArgs(["prog"] + path + [token, "x"])).command.full_name == want


def resolve_late(first: int, where: int, spell: int) -> bool:
    """
    pre: 0 <= first <= 2 and 0 <= where <= 1 and 0 <= spell <= 2
    post: _
    """
    return untraced(_late_case, conc_int(first, 0, 2), conc_int(where, 0, 1), conc_int(spell, 0, 2))


def resolve_twin(k2: int, k3: int, r_mode: int, l_default: bool, x_default: bool, a_disabled: bool, m_default: bool) -> bool:
    """
    pre: 0 <= k2 < len(MENU) and 0 <= k3 < len(MENU)
    pre: not a_disabled and r_mode == 0
    post: _
    """
    # reachability twin: some line reaches depth 3 through an alias and then a default sub-sub-command
    bits = (conc_bool(l_default), False, False, conc_bool(x_default), False, True, conc_bool(m_default), True)
    tokens = ["sv", MENU[conc_int(k2, 0, len(MENU) - 1)], MENU[conc_int(k3, 0, len(MENU) - 1)]]
    tree = make_tree(bits)
    return not (untraced(_case, bits, tokens, False) and untraced(expected, tree, tokens) == "s a x" and tokens[2] != "x" and tokens[2] != "xx")


def conditions(tier):
    quick = tier == "quick"
    t = 120 if quick else 1500
    conds = [{"name": "resolve0", "fn": resolve0, "timeout": t, "bounds": "no leading tokens / only options / only a '--' tail; default-command bits symbolic"}]
    MENU4 = ["a", "zz", "-v", "--", "u"]
    for k1 in range(len(MENU)):
        deep = MENU[k1] in ("s", "sv")                    # the tokens that open the deep part of the tree get the large menus
        variants = [(True, True, False)] if quick else [(True, True, False), (False, False, False), (True, False, True)]
        for hh, dd, as_string in variants:
            if deep:
                plan = [(rm, ld, MENU, MENU3 if quick else MENU) for rm in (0, 1, 2) for ld in (False, True)]
            else:
                plan = [(None, None, MENU3 if quick else MENU, MENU4 if quick else MENU3)]
            for rm, ld, m2, m3 in plan:
                conds.append({"name": "resolve3[%r%s%s%s]" % (MENU[k1], "" if rm is None else ",r%d" % rm, "" if ld is None else ",l%d" % ld, "" if quick else ",h%d,d%d,s%d" % (hh, dd, as_string)),
                              "fn": resolve3, "timeout": t,
                              "part": {"k1": k1, "r_mode": rm, "l_default": ld, "menu2": m2, "menu3": m3, "h_hidden": hh, "d_disabled": dd, "as_string": as_string},
                              "bounds": "first token %r, second from %r, third from %r; top-level 'r' %s; symbolic attribute bits (default sub-commands l/m, default sub-sub-command x, disabled sub-command a); hidden h=%s, disabled d=%s; %s form" % (
                                  MENU[k1], m2, m3, "named/default/anonymous (symbolic)" if rm is None else ["named", "default", "anonymous"][rm], hh, dd, "command-string" if as_string else "argv")})
    if not quick:
        for k1 in (0, 1):                 # 's', 'sv'
            for k2 in (2, 3, 4, 5):      # 'a', 'ad', 'l', 'x'  (paths that reach depth 2-3)
                conds.append({"name": "resolve4[%r,%r]" % (MENU[k1], MENU[k2]), "fn": resolve4, "timeout": t, "part": {"k1": k1, "k2": k2},
                              "bounds": "tokens %r %r + 2 more from the menu; 6 tree attribute bits" % (MENU[k1], MENU[k2])})
    conds.append({"name": "resolve_strict", "fn": resolve_strict, "timeout": t,
                  "bounds": "strictly parsing application (default command and default sub-command with a REQUIRED argument): %d lines that do or do not fit the default's arguments, argv and string form" % len(STRICT_LINES)})
    conds.append({"name": "resolve_late", "fn": resolve_late, "timeout": t,
                  "bounds": "a command with two aliases added to the application / to a command AFTER the application resolved nothing / a line / an undefined command; named by name and by each alias"})
    conds.append({"name": "resolve_twin", "fn": resolve_twin, "timeout": t, "expect": "refute", "part": {"k1": 1}, "bounds": "reachability twin"})
    return conds

#!/usr/bin/env python3
"""(Re)writes seeded/<id>_<x>/meta.json; detection results are merged from seeded/detection.json when present."""
import json, os
NEEDS = {
 "C01_a": "a literal '--' token among the tokens after the first '--' separator (second '--' is swallowed)",
 "C01_b": "NULLABLE value option with a non-None default given the text 'null', read back through Args.option(name)",
 "C02_a": "grouped short token flag+value-option immediately followed by an empty-string token, e.g. ['-fo', ''] -> IndexError",
 "C02_b": "lenient mode + trailing multi-valued argument + at least two values (later values dropped)",
 "C03_a": "an option token (not the first option) or a token right after '--' named like a sub-command of the selected command",
 "C03_b": "a disabled sub-command at depth >= 2 named on the command line",
 "C04_a": "handler raises an exception whose 'code' attribute is truthy and not convertible by int()",
 "C04_b": "handler returns a truthy value that truncates to 0 ('0', 0.5)",
 "C05_a": "strict parse failing late (missing required argument) on a shared parser, then another parse",
 "C05_b": "one parser, two distinct formats with identical names but different flags",
 "C06_a": "command option with free names but a colliding alias: rejected add leaves the option half-registered",
 "C06_b": "set_command_options after an option with a short name: wrong short-name table cleared",
 "C07_a": "option flags with NULLABLE and no explicit type: no default STRING bit",
 "C07_b": "INTEGER conversion of 'inf'/'1e999': OverflowError escapes",
 "C08_a": "token containing two consecutive backslashes",
 "C08_b": "command string whose FIRST token is '--'",
 "C09_a": "'-v' immediately before '--' and '-V'/'--version' after it",
 "C09_b": "'-q' combined with a verbosity switch and a handler writing with a verbosity flag",
 "C10_a": "multi-bit flag word (3,5,6,7) at a verbosity between the lowest and highest requested level",
 "C10_b": "plain (non-ANSI) section output, formatted write with non-zero flags below the verbosity",
 "C11_a": "style added with add_style() after construction to an AnsiFormatter, then remove_format / undecorated output",
 "C11_b": "IO-level indentation scope opened while output and error output have different indentation",
 "C12_a": "listener registered at an already used priority after a dispatch/query built the sorted cache",
 "C12_b": "two or more listeners with equal priority on one event",
 "C13_a": "sub-command help page when the parent command defines its own option",
 "C13_b": "parameter with a default/multi-value note whose description wraps",
 "C14_a": "wrapped column whose wrapped cells end up narrower than another unwrapped cell of that column",
 "C14_b": "compact table style with >= 2 columns needing wrapping",
 "C15_a": "line whose visible length is an exact positive multiple of the terminal width, then a redraw",
 "C15_b": "three sections, update of a section with two later non-empty sections of differing content",
 "C16_a": "second start() while the displayed line is longer than the fresh step-0 frame (ANSI)",
 "C16_b": "advance, clear(), advance inside the minimum redraw interval",
 "C17_a": "two borderless table styles, one customised in place",
 "C17_b": "--ansi runs on one application: an unclosed style tag (help synopsis of an argument named like a style) leaks into later runs",
 "C18_a": "duplicated choice typed by the user with an attempt limit other than 1",
 "C18_b": "single-select answer with an interior space",
 "C19_a": "body of auto() left by KeyboardInterrupt",
 "C19_b": "manual mode: a gap of >= 2 intervals, then several advance() calls closer than one interval",
 "C20_a": "form feed / U+2028-like character inside a multi-line string above the snippet window",
 "C20_b": "two renders in one process with different ignore patterns (class-level cache keyed by file name)",
}
det = {}
p = os.path.join(os.path.dirname(__file__), "..", "seeded", "detection.json")
if os.path.exists(p):
    det = json.load(open(p))
for k, needs in NEEDS.items():
    d = os.path.join(os.path.dirname(__file__), "..", "seeded", k)
    meta = {
        "property": k.split("_")[0], "variant": k.split("_")[1],
        "breaks": "see notes.md (section '%s') written by the independent sub-agent that produced the change" % k.split("_")[1],
        "needs_to_manifest": needs,
        "produced_by": "fresh sub-agent given only the property text and its own scratch worktree (no access to /verif)",
        "verified": ("in a scratch worktree of /repo HEAD (/tmp/seedcheck, removed afterwards): demo.py exits 0 on the pristine tree and 1 with patch.diff applied; "
                     "the repository suite gives the baseline result with the patch (396 passed, 3 skipped, the one known failing test)"),
        "how_to_run": "git -C /repo apply /verif/seeded/%s/patch.diff && (cd /verif && ./check %s quick); git -C /repo checkout -- ." % (k, k.split("_")[0]),
        "detection": det.get(k, "not yet run"),
    }
    json.dump(meta, open(os.path.join(d, "meta.json"), "w"), indent=1)
print("meta written for", len(NEEDS))

"""C19 - the automatic progress indicator is well-behaved under every interleaving (as far as a solver can see).

E1 (CrossHair).
Manual mode (fully in scope): start / advance / set_message / finish sequences with a SYMBOLIC integer clock
(every clock advance an unbounded non-negative int of seconds, the interval a symbolic whole number of seconds given
in milliseconds, so `round(time.time() * 1000)` stays exact integer arithmetic).  Redraws caused by advancing are at
least one interval apart; every frame is fmt(one of the indicator values, current message).
Automatic mode: CrossHair follows one thread, so `threading.Thread/Event` and `time.sleep` inside
clikit.ui.components.progress_indicator are replaced FROM THE HARNESS by sequential stubs and the SCHEDULE becomes the
symbolic input: how many spinner iterations run before / between / after the main thread's operations, how far the
clock moves at each, which operations the body performs and how it ends (normally, Exception, KeyboardInterrupt), and whether a spinner iteration is in flight at that moment
(it then completes while the caller waits in join()).
Checked: the stop event is set and the spinner joined on every exit, the last frame after a normal exit is the end
message, the emulated terminal line holds exactly one frame after every write pair.
Preemption INSIDE the two-write redraw (erase, then frame) is the recorded known finding C19-torn-frame (no lock).
"""
import re
import threading as _real_threading
import time as _real_time

import clikit.ui.components.progress_indicator as pimod
from clikit.api.io.output import Output
from clikit.formatter import AnsiFormatter, PlainFormatter
from clikit.io.output_stream.buffered_output_stream import BufferedOutputStream
from clikit.ui.components.progress_indicator import ProgressIndicator

from vf import kf
from vf.sym import conc_bool, conc_int, untraced

PROPERTY = "C19"
FUNCTIONS = ["ProgressIndicator.start/advance/set_message/finish/auto/_spin/_display/_overwrite/_get_current_time_in_milliseconds"]
PART = {}
EXTRA_BOUNDS = 'also: smt_advance_float (E2, cvc5 QF_BVFP): two consecutive advance() calls at any binary64 clock readings <= 4e9 s, any armed deadline, any interval 1..3 600 000 ms; messages that look like placeholders; empty end message; manual use of the indicator after an automatic block; schedules in which caller and spinner wait for each other (10 s deadline).'
BOUNDS = {"quick": "manual: 4 operations from {advance, set_message} after start, every clock advance any int >= 0 seconds, interval any whole number of seconds in [1, 3600]; "
                   "automatic: schedules of <= 3 body operations from {set_message, spinner runs k iterations (k <= 3), clock +0/+1 s} with 3 exits (normal / Exception / KeyboardInterrupt); ANSI and plain outputs",
          "thorough": "5 manual operations, 4 body operations"}
OUTSIDE = ["interleavings at bytecode granularity and preemption between arbitrary instructions: not expressible - CrossHair traces one thread and no deterministic CPython scheduler exists in this sandbox",
           "preemption between the erase write and the frame write of one redraw: known finding C19-torn-frame (every such schedule shows two frames on the line)",
           "sub-second clock readings in the E1 sequences (the E2 obligation smt_advance_float covers the throttle of advance() for ANY binary64 clock reading, in terms of the millisecond reading round(t*1000)); "
           "that round(t*1000) is monotone in t is an IEEE-754 fact the solver did not decide within the budget - stated, not claimed; the OS scheduler; more than one spinner",
           "a real-thread smoke run (normal, Exception, KeyboardInterrupt exits) is executed concretely and reported as concretised, not as a solver verdict"]
STUBS = ["clikit.ui.components.progress_indicator.time -> virtual clock (symbolic ints / finite menu) with sleep() = no-op", "clikit.ui.components.progress_indicator.threading -> sequential stubs: Thread records start/join, Event records set; the harness runs spinner iterations explicitly"]
ASSUMPTIONS = ["one spinner iteration = one call of advance() (the body of _spin's loop), executed atomically between main-thread operations"]


class Clock:
    def __init__(self, t=1000):
        self.t = t

    def time(self):
        return self.t

    def monotonic(self):                   # every clock the library might read is the virtual one
        return self.t

    def perf_counter(self):
        return self.t

    def sleep(self, s):
        pass

    def __getattr__(self, name):           # anything else (strftime, ...) is the real module's
        return getattr(_real_time, name)


class StubEvent:
    instances = []

    def __init__(self):
        self.flag = False
        self.sets = 0
        StubEvent.instances.append(self)

    def clear(self):
        self.flag = False

    def wait(self, timeout=None):
        return self.flag

    def set(self):
        self.flag = True
        self.sets += 1

    def is_set(self):
        return self.flag


class StubThread:
    instances = []
    on_join = None        # the harness may let one spinner iteration that passed the loop check before the stop event finish here

    def __init__(self, target=None):
        self.target, self.started, self.joins = target, 0, 0
        StubThread.instances.append(self)

    def start(self):
        self.started += 1

    def join(self):
        self.joins += 1
        cb, StubThread.on_join = StubThread.on_join, None
        if cb is not None:
            cb()


class _StubThreadingMeta(type):
    def __getattr__(cls, name):            # everything but Thread and Event is the real thing (Lock, RLock, current_thread, ...)
        return getattr(_real_threading, name)


class StubThreading(metaclass=_StubThreadingMeta):
    Thread = StubThread
    Event = StubEvent


class Patched:
    def __init__(self, clock, threads=False):
        self.clock, self.threads = clock, threads

    def __enter__(self):
        self.saved = (pimod.time, pimod.threading)
        pimod.time = self.clock
        if self.threads:
            del StubThread.instances[:]
            pimod.threading = StubThreading
        return self

    def __exit__(self, *a):
        pimod.time, pimod.threading = self.saved


VALUES = ["-", "\\", "|", "/"]


def _frame_ok(text, message):
    return any(text == " %s %s" % (v, message) for v in VALUES)


# ---------------------------------------------------------------- manual mode, symbolic clock

MSG_KINDS = ["m%d", "{elapsed} left %d", "took {indicator} %d", "{message}%d {x}"]


def manual(d1: int, d2: int, d3: int, d4: int, d5: int, k: int) -> bool:
    """
    pre: d1 >= 0 and d2 >= 0 and d3 >= 0 and d4 >= 0 and d5 >= 0
    pre: 1 <= k <= 3600
    pre: len(PART["ops"]) > 4 or d5 == 0
    post: _
    """
    ops = PART["ops"]                       # e.g. "aasa": a = advance, s = set_message
    clock = Clock(1000)
    interval = k * 1000
    with Patched(clock):
        st = BufferedOutputStream()
        pi = ProgressIndicator(Output(st, AnsiFormatter(forced=True)), None, interval)
        frames = []
        orig = pi._overwrite

        def spy(message):
            frames.append((message, clock.t, cause[0]))
            return orig(message)

        pi._overwrite = spy
        mk = MSG_KINDS[PART.get("mk", 0)]        # message family: plain, or texts that look like the format's own placeholders
        cause = ["start"]
        pi.start(mk % 0)
        msg = mk % 0
        last_adv_draw = clock.t                      # start() draws and arms the first deadline one interval later
        for i, (op, d) in enumerate(zip(ops, (d1, d2, d3, d4, d5))):
            clock.t = clock.t + d
            n = len(frames)
            if op == "a":
                cause[0] = "advance"
                pi.advance()
                if len(frames) > n:
                    if (clock.t - last_adv_draw) * 1000 < interval:
                        return False                 # advancing redraws no more often than the configured interval
                    last_adv_draw = clock.t
                elif (clock.t - last_adv_draw) * 1000 >= interval:
                    return False                     # ... and does redraw once the interval has passed
            else:
                cause[0] = "set_message"
                msg = mk % (i + 1)
                pi.set_message(msg)
                if len(frames) != n + 1:
                    return False
            if len(frames) > n and not _frame_ok(frames[-1][0], msg):
                return False                         # every frame shows one of the indicator values followed by the current message
        cause[0] = "finish"
        pi.finish("done")
        return _frame_ok(frames[-1][0], "done")


def manual_twin(d1: int, d2: int, d3: int, d4: int, d5: int, k: int) -> bool:
    """
    pre: d1 >= 0 and d2 >= 0 and d3 >= 0 and d4 == 0 and d5 == 0
    pre: 1 <= k <= 3600
    post: _
    """
    PART["ops"] = "aaa"
    ok = manual(d1, d2, d3, 0, 0, k)
    return not (ok and d1 >= 2 * k and d2 < k and d3 + d2 >= k)      # twin: a long gap followed by a throttled and then a due advance passes


def manual_plain(d1: int, d2: int, k: int) -> bool:
    """
    pre: d1 >= 0 and d2 >= 0 and 1 <= k <= 3600
    post: _
    """
    # without ANSI support advancing never redraws; start / set_message / finish print one line each, no control codes
    clock = Clock(1000)
    with Patched(clock):
        st = BufferedOutputStream()
        pi = ProgressIndicator(Output(st, PlainFormatter()), None, k * 1000)
        pi.start("m0")
        clock.t = clock.t + d1
        pi.advance()
        clock.t = clock.t + d2
        pi.set_message("m1")
        pi.advance()
        pi.finish("done")
        return st.fetch() == " m0\n m1\n done\n\n"


# ---------------------------------------------------------------- E2: the throttle of advance() for ANY float clock reading

def smt_advance_float(tier):
    """`advance` (with `_get_current_time_in_milliseconds` inlined) translated from the current source; `time.time()` is a nondeterministic
    Float64.  Two consecutive calls at clock readings now1 <= now2 from an arbitrary armed state: a call draws exactly when the millisecond
    reading has reached the deadline, a draw re-arms the deadline one interval later, so two draws are never closer than the interval in
    millisecond readings - and the millisecond reading is monotone in the clock (no early draw through float rounding)."""
    import z3
    from vf import smtlib
    from vf.py2smt import Ctx, run_method
    F = z3.Float64()
    W = 48
    results, queries, solver_s = [], 0, 0.0
    now1, now2, upd0 = z3.FP("now1", F), z3.FP("now2", F), z3.FP("upd0", F)
    interval = z3.BitVec("interval", W)
    fin = lambda x: z3.And(z3.Not(z3.fpIsNaN(x)), z3.Not(z3.fpIsInf(x)))
    integral = lambda x: z3.fpEQ(z3.fpRoundToIntegral(z3.RNE(), x), x)
    pre = [fin(now1), fin(now2), fin(upd0), z3.fpGEQ(now1, z3.FPVal(0.0, F)), z3.fpLEQ(now1, now2), z3.fpLEQ(now2, z3.FPVal(4.0e9, F)),
           integral(upd0), z3.fpGEQ(upd0, z3.FPVal(0.0, F)), z3.fpLEQ(upd0, z3.FPVal(8.0e12, F)), interval >= 1, interval <= 3600000]

    def step(upd, now, tag):
        ctx = Ctx(bv=W)
        drawn = {"g": z3.BoolVal(False)}

        def display_stub(it, fr, args, guard, drawn=drawn):
            drawn["g"] = z3.Or(drawn["g"], guard)
            return None

        env = {"self._started": True, "self._update_time": upd, "self._interval": interval, "self._current": z3.BitVecVal(0, W)}
        stubs = {"supports_ansi": lambda it, fr, args, guard: True, "_display": display_stub, "time.time": lambda it, fr, args, guard: now}
        ret, out = run_method(ProgressIndicator, "advance", env, [], ctx, stubs=stubs)
        return drawn["g"], out["self._update_time"], out["self._current"], ctx

    ms = lambda t: z3.fpRoundToIntegral(z3.RNE(), z3.fpMul(z3.RNE(), t, z3.FPVal(1000.0, F)))
    d1, upd1, cur1, ctx1 = step(upd0, now1, "1")
    upd1f = ctx1.tofp(upd1) if not isinstance(upd1, z3.FPRef) else upd1
    d2, upd2, cur2, ctx2 = step(upd1f, now2, "2")
    upd2f = ctx2.tofp(upd2) if not isinstance(upd2, z3.FPRef) else upd2
    I = z3.fpSignedToFP(z3.RNE(), interval, F)
    obligations = [
        ("a call draws exactly when the millisecond reading has reached the deadline", d1 != z3.fpGEQ(ms(now1), upd0)),
        ("a draw re-arms the deadline exactly one interval after the millisecond reading; no draw leaves it", z3.Not(z3.If(d1, z3.fpEQ(upd1f, z3.fpAdd(z3.RNE(), ms(now1), I)), z3.fpEQ(upd1f, upd0)))),
        ("a draw advances the indicator by one value, no draw keeps it", cur1 != z3.If(d1, z3.BitVecVal(1, W), z3.BitVecVal(0, W))),
        ("two draws are at least one interval apart in millisecond readings", z3.And(d1, d2, z3.fpLT(z3.fpSub(z3.RNE(), ms(now2), ms(now1)), I))),
        # NOT an obligation: "round(t * 1000) is monotone in t".  It is an IEEE-754 fact (round-to-nearest multiplication by a positive constant and
        # round-to-integral are both monotone) but cvc5 did not decide it for binary64 within 240 s, so it is stated in OUTSIDE, not claimed.
        ("the deadline stays an exactly representable whole number of milliseconds", z3.Or(z3.Not(integral(upd2f)), z3.fpGT(upd2f, z3.FPVal(2.0 ** 52, F)))),
        ("no exception", z3.Or(ctx1.exc, ctx2.exc)),
    ]
    for name, bad in obligations:
        r, model, dt = smtlib.check(pre + [bad], logic="QF_BVFP", timeout_s=500)
        queries += 1
        solver_s += dt
        results.append({"obligation": name, "result": r, "solver_s": round(dt, 2)})
        if r == "sat":
            return {"verdict": "refuted", "args": {"now1": model.get("now1"), "now2": model.get("now2"), "upd0": model.get("upd0"), "interval": model.get("interval"), "obligation": name},
                    "queries": queries, "detail": results, "message": name}
        if r != "unsat":
            return {"verdict": "unknown", "queries": queries, "detail": results, "message": "%s: solver answered %s" % (name, r)}
    w, _, dt = smtlib.check(pre + [d1, z3.Not(d2), z3.fpGT(now2, now1)], logic="QF_BVFP", timeout_s=120)
    results.append({"witness": "a draw followed by a throttled call at a later clock reading is reachable", "result": w})
    if w != "sat":
        return {"verdict": "unknown" if w != "unsat" else "error", "message": "vacuity witness: " + w, "detail": results}
    # translator validation on concrete readings against the real object
    for (u, t1, t2, iv) in [(1000100.0, 1000.05, 1000.2, 100), (1000100.0, 1000.2, 1000.25, 100), (5.0, 0.0049, 0.0051, 1), (2000000.0, 1999.9996, 2000.0004, 500)]:
        real = _real_two_advances(u, t1, t2, iv)
        m1, m2 = round(t1 * 1000), round(t2 * 1000)
        e1 = m1 >= u
        u1 = m1 + iv if e1 else u
        e2 = m2 >= u1
        if real != (e1, e2):
            return {"verdict": "refuted", "args": {"now1": t1, "now2": t2, "upd0": u, "interval": iv, "obligation": "concrete validation"}, "message": "real object draws %r, encoding expects %r" % (real, (e1, e2))}
    return {"verdict": "confirmed", "queries": queries + 1, "solver_s": round(solver_s, 2), "detail": results}


def _real_two_advances(upd0, t1, t2, interval):
    clock = {"t": t1}
    saved = pimod.time
    pimod.time = type("T", (), {"time": staticmethod(lambda: clock["t"]), "sleep": staticmethod(lambda s: None)})
    try:
        pi = ProgressIndicator(Output(BufferedOutputStream(), AnsiFormatter(forced=True)), None, interval)
        pi._started, pi._message, pi._update_time, pi._start_time = True, "m", int(upd0), t1
        draws = []
        pi._display = lambda: draws.append(clock["t"])
        pi.advance()
        n1 = len(draws)
        clock["t"] = t2
        pi.advance()
        return (n1 == 1, len(draws) - n1 == 1)
    finally:
        pimod.time = saved


def _replay_advance_float(a):
    if a.get("obligation") == "concrete validation":
        return "real object and encoding disagree at %r" % (a,)
    u, t1, t2, iv = float(a["upd0"]), float(a["now1"]), float(a["now2"]), int(a["interval"])
    d1, d2 = _real_two_advances(u, t1, t2, iv)
    m1, m2 = round(t1 * 1000), round(t2 * 1000)
    if d1 != (m1 >= u):
        return "advance at clock %r (deadline %r ms): drew=%r" % (t1, u, d1)
    if d1 and d2 and m2 - m1 < iv:
        return "two draws %d ms apart with an interval of %d ms" % (m2 - m1, iv)
    if m2 < m1:
        return "millisecond reading not monotone"
    return None


# ---------------------------------------------------------------- automatic mode, symbolic schedule

class BodyError(Exception):
    pass


BODY_OPS = ["set_message", "spin1", "spin3", "tick"]       # tick = clock + 1 s


def _line_after(data):
    """The emulated terminal line: CR + erase-line starts a fresh line; what follows is what is shown."""
    line = ""
    i = 0
    while i < len(data):
        if data.startswith("\r\x1b[2K", i):
            line = ""
            i += 5
        elif data[i] == "\n":
            line = ""
            i += 1
        else:
            line += data[i]
            i += 1
    return line


def _auto_case(ops, exit_kind, ansi, pre_spins, interval_s, inflight=False, end=""):
    end = end or "finished"
    if end == "EMPTY":
        end = ""
    clock = Clock(1000)
    with Patched(clock, threads=True):
        StubThread.on_join = None
        st = BufferedOutputStream()
        out = Output(st, AnsiFormatter(forced=True) if ansi else PlainFormatter())
        pi = ProgressIndicator(out, None, interval_s * 1000)
        msg = ["start"]
        checks = {"ok": True}

        def spinner(n):
            for _ in range(n):
                if StubEvent.instances and StubEvent.instances[-1].is_set():
                    return
                pi.advance()                       # one iteration of _spin's loop
                clock.sleep(0.1)
                if ansi and not _frame_ok(_line_after(st.fetch()), msg[0]):
                    checks["ok"] = False

        raised = None
        try:
            with pi.auto("start", end) as p:
                if p is not pi:
                    return False
                thread = StubThread.instances[-1]
                event = StubEvent.instances[-1]          # the stop signal the indicator created for this block (observed through the stub, not a private name)
                if thread.started != 1:
                    return False
                spinner(pre_spins)
                for i, op in enumerate(ops):
                    if op == "set_message":
                        msg[0] = "w%d" % i
                        pi.set_message(msg[0])
                    elif op == "spin1":
                        spinner(1)
                    elif op == "spin3":
                        spinner(3)
                    else:
                        clock.t += 1
                    if ansi and not _frame_ok(_line_after(st.fetch()), msg[0]):
                        return False                 # the terminal line shows exactly one frame: current indicator value + current message
                if inflight:
                    # the spinner is inside an iteration (past its loop check) when the body ends: that iteration completes while
                    # the caller's thread waits in join() - whatever it draws must not end up after the final frame
                    clock.t += interval_s
                    StubThread.on_join = pi.advance
                if exit_kind == 1:
                    raise BodyError("body failed")
                if exit_kind == 2:
                    raise KeyboardInterrupt()
        except BodyError as e:
            raised = "BodyError"
        except KeyboardInterrupt:
            raised = "KeyboardInterrupt"
        if not checks["ok"]:
            return False
        if raised != [None, "BodyError", "KeyboardInterrupt"][exit_kind]:
            return False                             # the body's exception is passed on unchanged
        # leaving the automatic mode always stops and joins the spinner
        if not event.is_set() or thread.joins < 1:
            return False
        data = st.fetch()
        if exit_kind == 0:
            if ansi:
                lines = data.split("\n")
                # the last frame shown is the end message (then the line is finished with a newline)
                if not (len(lines) >= 2 and lines[-1] == "" and _frame_ok(_line_after(lines[-2] if "\r" in lines[-2] else "\r\x1b[2K" + lines[-2]), end)):
                    return False
                # the same indicator used by hand afterwards: without a spinner thread advancing is throttled by the interval again
                pi.start("again")
                n0 = st.fetch().count("\x1b[2K")
                pi.advance()
                pi.advance()
                if st.fetch().count("\x1b[2K") != n0:
                    return False
                clock.t += interval_s
                pi.advance()
                pi.advance()
                return st.fetch().count("\x1b[2K") == n0 + 1
            return data.endswith("\n\n") and data[: -2].split("\n")[-1] == " " + end
        return True


def auto(o1: int, o2: int, o3: int, o4: int, exit_kind: int, ansi: bool, pre_spins: int, interval_s: int, inflight: bool, empty_end: bool) -> bool:
    """
    pre: 0 <= o1 < 4 and 0 <= o2 < 4 and 0 <= o3 < 4 and 0 <= o4 < 4 and 0 <= exit_kind <= 2 and 0 <= pre_spins <= 2 and 1 <= interval_s <= 2
    pre: PART["n"] > 3 or o4 == 0
    pre: PART.get("exit") is None or exit_kind == PART["exit"]
    pre: PART.get("ansi") is None or ansi == PART["ansi"]
    post: _
    """
    ops = [BODY_OPS[conc_int(o, 0, 3)] for o in (o1, o2, o3, o4)][: PART["n"]]
    return untraced(_auto_guarded, ops, conc_int(exit_kind, 0, 2), conc_bool(ansi), conc_int(pre_spins, 0, 2), conc_int(interval_s, 1, 2), conc_bool(inflight), "EMPTY" if conc_bool(empty_end) else "")


def _auto_guarded(*args):
    # leaving the automatic mode must TERMINATE: a schedule in which the caller and the spinner wait for each other is a violation, not a hang of the check
    from vf.sym import DeadlineExceeded, deadline
    try:
        with deadline(10):
            return _auto_case(*args)
    except DeadlineExceeded:
        return False


def auto_twin(o1: int, o2: int, o3: int, o4: int, exit_kind: int, ansi: bool, pre_spins: int, interval_s: int) -> bool:
    """
    pre: 0 <= o1 < 4 and 0 <= o2 < 4 and o3 == 0 and o4 == 0 and exit_kind == 2 and ansi and pre_spins == 1 and interval_s == 1
    post: _
    """
    ops = [BODY_OPS[conc_int(o, 0, 3)] for o in (o1, o2)]
    ok = untraced(_auto_case, ops, 2, True, 1, 1)
    return not (ok and ops == ["tick", "spin3"])      # twin: the spinner really redraws inside the body and a KeyboardInterrupt exit passes all checks


# ---------------------------------------------------------------- known finding: torn frame

def _torn_case(at_write):
    """Main thread's set_message preempts the spinner between the writes of one redraw (nested preemption at a stream write)."""
    clock = Clock(1000)
    with Patched(clock, threads=True):
        class Hook(BufferedOutputStream):
            n = 0
            fire = None

            def write(self, s):
                BufferedOutputStream.write(self, s)
                Hook.n += 1
                if Hook.fire is not None and Hook.n == Hook.fire[0]:
                    f, Hook.fire = Hook.fire[1], None
                    f()

        Hook.n, Hook.fire = 0, None
        st = Hook()
        pi = ProgressIndicator(Output(st, AnsiFormatter(forced=True)), None, 1000)
        with pi.auto("start", "finished"):
            clock.t += 2
            Hook.fire = (Hook.n + at_write, lambda: pi.set_message("new"))
            pi.advance()                              # one spinner iteration, preempted after its `at_write`-th write
            line = _line_after(st.fetch())
            if not _frame_ok(line, "new"):
                return False                          # a mixture of two frames on the terminal line
        return True


def torn_frame(at_write: int) -> bool:
    """
    pre: 1 <= at_write <= 2
    post: _
    """
    at = conc_int(at_write, 1, 2)
    if kf.excluded("C19-torn-frame", at == 1):
        return True
    return untraced(_torn_case, at)


# ---------------------------------------------------------------- concrete smoke run with real threads (not a solver verdict)

def real_threads(tier):
    results = []
    for exit_kind in (0, 1, 2):
        st = BufferedOutputStream()
        pi = ProgressIndicator(Output(st, AnsiFormatter(forced=True)), None, 20)
        before = _real_threading.active_count()
        try:
            with pi.auto("start", "finished"):
                _real_time.sleep(0.25)
                pi.set_message("working")
                _real_time.sleep(0.05)
                if exit_kind == 1:
                    raise BodyError("x")
                if exit_kind == 2:
                    raise KeyboardInterrupt()
        except (BodyError, KeyboardInterrupt):
            pass
        _real_time.sleep(0.05)
        alive = pi._auto_thread.is_alive()
        n0 = len(st.fetch())
        _real_time.sleep(0.3)
        still_writing = len(st.fetch()) != n0
        results.append((exit_kind, alive, still_writing, _real_threading.active_count() - before))
        if alive:                                        # do not leave a runaway spinner behind in this process
            pi._auto_running.set()
            pi._auto_thread.join(2)
        if alive or still_writing:
            return {"verdict": "refuted", "args": {"exit_kind": exit_kind}, "message": "spinner thread still alive / still drawing after leaving auto()", "detail": results}
        if exit_kind == 0 and not _frame_ok(_line_after(st.fetch().rstrip("\n")), "finished"):
            return {"verdict": "refuted", "args": {"exit_kind": 0}, "message": "last frame is not the end message", "detail": results}
    return {"verdict": "confirmed", "queries": 0, "paths": 0, "engine": "native (concretised)", "detail": "real threads, exits normal/Exception/KeyboardInterrupt: %r (outside the solver-decided claim)" % (results,)}


def _replay_real(args):
    r = real_threads("quick")
    return None if r["verdict"] == "confirmed" else r["message"]


def conditions(tier):
    quick = tier == "quick"
    t = 120 if quick else 1500
    conds = []
    shapes = ["a", "aa", "as", "sa", "aaa", "asa", "saa", "aas", "aaaa", "asas", "aasa", "saas"] + ([] if quick else ["aaaaa", "asaas", "saasa", "aasaa"])
    for ops in shapes:
        conds.append({"name": "manual[%s]" % ops, "fn": manual, "timeout": t, "part": {"ops": ops},
                      "bounds": "start, then %s (a = advance, s = set_message), finish; every clock advance any int >= 0 s; interval any k*1000 ms, 1 <= k <= 3600" % ops})
    for mk in (1, 2, 3):
        for ops in (("as", "sa") if quick else ("as", "sa", "asa", "saas")):
            conds.append({"name": "manual[%s,messages like %r]" % (ops, MSG_KINDS[mk]), "fn": manual, "timeout": t, "part": {"ops": ops, "mk": mk},
                          "bounds": "as manual[%s], with messages of the form %r (text that looks like a placeholder of the frame format is still just the message)" % (ops, MSG_KINDS[mk])})
    conds.append({"name": "smt_advance_float", "engine": "smt", "fn": smt_advance_float, "timeout": 900, "replay": _replay_advance_float,
                  "bounds": "E2 (cvc5 QF_BVFP over the translated advance/_get_current_time_in_milliseconds): two consecutive advance() calls at ANY float clock readings 0 <= now1 <= now2 <= 4e9 s, any armed deadline (whole ms <= 8e12), any interval 1..3 600 000 ms"})
    conds.append({"name": "manual_twin", "fn": manual_twin, "timeout": t, "expect": "refute", "part": {"ops": "aaa"}, "bounds": "reachability twin"})
    conds.append({"name": "manual_plain", "fn": manual_plain, "timeout": t, "bounds": "plain output: symbolic clock, no redraw by advancing, no control codes"})
    for ex in range(3):
        for ansi in (True, False):
            conds.append({"name": "auto[exit=%s%s]" % (["normal", "Exception", "KeyboardInterrupt"][ex], "" if ansi else ",plain"), "fn": auto, "timeout": t, "part": {"n": 3 if quick else 4, "exit": ex, "ansi": ansi},
                          "bounds": "body of %d operations from %r, 0-2 spinner iterations before, interval 1-2 s, end message 'finished' or empty, %s output; after a normal exit the same indicator is used by hand (throttled again)" % (3 if quick else 4, BODY_OPS, "ANSI" if ansi else "plain")})
    conds.append({"name": "auto_twin", "fn": auto_twin, "timeout": t, "expect": "refute", "part": {"n": 2, "exit": 2}, "bounds": "reachability twin"})
    conds.append({"name": "torn_frame", "fn": torn_frame, "timeout": t, "bounds": "set_message preempting one spinner redraw after its 1st / 2nd stream write"})
    conds.append({"name": "real_threads", "engine": "native", "fn": real_threads, "timeout": 120, "replay": _replay_real,
                  "bounds": "three concrete runs with real threads (concretised; not a solver claim)"})
    return conds

"""Self-tests of the engine repairs in vf/chpatch.py (DESIGN.md 2.1).  Run as property id SELFTEST.

Each contract compares the patched symbolic operation with an independent arithmetic definition for
EVERY Python int (unbounded), for every mask clikit uses; the dict-copy contract is the minimal
reproduction of the unsoundness found in crosshair 0.0.110.
"""
PROPERTY = "SELFTEST"
FUNCTIONS = ["vf.chpatch"]
PART = {}
MASKS = [1, 2, 3, 4, 6, 7, 8, 16, 32, 60, 128, 256, 512, 1024, 1920, 2048, 64, 240]
OrderedDict = dict


def _bit(a, k):
    return (a // (2 ** k)) % 2


def and_ok(a: int) -> bool:
    """
    post: _
    """
    m = PART["mask"]
    exp = sum(_bit(a, k) * 2 ** k for k in range(12) if (m >> k) & 1)
    return (a & m) == exp and (m & a) == exp and bool(a & m) == (exp != 0)


def or_ok(a: int) -> bool:
    """
    post: _
    """
    m = PART["mask"]
    exp = a + sum((1 - _bit(a, k)) * 2 ** k for k in range(12) if (m >> k) & 1)
    return (a | m) == exp and (m | a) == exp


def and_twin(a: int) -> bool:
    """
    post: _
    """
    return (a & 6) != 4


def dict_copy_len(k: int) -> bool:
    """
    pre: 0 <= k <= 3
    post: _
    """
    d = OrderedDict()
    for i in range(k):
        d["k%d" % i] = i
    c = d.copy()
    c2 = dict(d)
    return len(c) == k and len(c2) == k and list(c) == list(d) and (k == 0 or "k0" in c)


def real_typeerror_twin(k: int) -> bool:
    """
    pre: 0 <= k <= 3
    post: _
    """
    import re
    if k == 2:
        re.match("a", 5)          # a REAL TypeError ("expected string or bytes-like object, got 'int'"): must be reported, not skipped
    return True


def native_bitops(tier):
    """The decomposition used by the patch, run on concrete ints against CPython's own & and | (independent of the engine)."""
    from vf import chpatch
    n = 0
    for m in MASKS + [0, 4095, 65535]:
        for a in list(range(-5000, 5000)) + [2 ** 40 + 5, -2 ** 40 - 7, 2 ** 70 + 123]:
            n += 1
            if chpatch._bit_and(a, m) != (a & m) or a + m - chpatch._bit_and(a, m) != (a | m):
                return {"verdict": "refuted", "args": {"a": a, "m": m}, "message": "bit decomposition differs from CPython", "queries": n}
    return {"verdict": "confirmed", "queries": 0, "paths": 0, "detail": "%d concrete (a, mask) pairs agree with CPython" % n}


def conditions(tier):
    conds = [{"name": "native_bitops", "engine": "native", "fn": native_bitops, "timeout": 60, "bounds": "concrete validation of the decomposition arithmetic",
              "replay": lambda args: "decomposition differs at %r" % (args,)}]
    for m in MASKS:
        conds.append({"name": "and[%d]" % m, "fn": and_ok, "timeout": 60, "part": {"mask": m}, "bounds": "every int a, mask %d" % m})
        conds.append({"name": "or[%d]" % m, "fn": or_ok, "timeout": 60, "part": {"mask": m}, "bounds": "every int a, mask %d" % m})
    conds.append({"name": "and_twin", "fn": and_twin, "timeout": 60, "expect": "refute", "part": {"mask": 6}, "bounds": "reachability twin"})
    conds.append({"name": "real_typeerror_twin", "fn": real_typeerror_twin, "timeout": 60, "expect": "refute",
                  "bounds": "a concrete TypeError of the kind the engine's proxy-intolerance filter used to swallow is reported"})
    conds.append({"name": "dict_copy_len", "fn": dict_copy_len, "timeout": 60, "bounds": "dict() + copy() + len, 0..3 keys"})
    return conds

#!/verif/.venv/bin/python
# Replays a counterexample on the real code in /repo/src (no solver involved).
import os, sys, json
sys.path[:0] = ['/verif', '/repo/src']
from vf.replay import replay
ARGS = json.loads('{"c0": 1, "c1": 1, "c2": 0, "c3": 2, "header": false, "indent": false, "a0": 0, "a1": 1}')
r = replay('harness.c14', 'table2x2[ascii,w=56,indent=0]', ARGS, 'quick')
print('REPRODUCED: ' + r if r else 'NOT-REPRODUCED')
sys.exit(1 if r else 0)

#!/bin/sh
# Repository's own test suite with the verification guard OFF (no hooks exist; guard name reserved).
unset CLIKIT_VERIF
cd /repo && exec /venv/bin/python -m pytest -ra -q -p no:cacheprovider --timeout=900 --continue-on-collection-errors "$@"

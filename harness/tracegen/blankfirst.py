
# generated source used by harness/c20.py: the FIRST line of this file is empty on purpose
def blank_first(msg):
    raise ValueError(msg)

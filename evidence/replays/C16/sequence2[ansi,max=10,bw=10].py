#!/verif/.venv/bin/python
# Replays a counterexample on the real code in /repo/src (no solver involved).
import os, sys, json
sys.path[:0] = ['/verif', '/repo/src']
from vf.replay import replay
ARGS = json.loads('{"o1": 6, "o2": 4, "o3": 0, "d1": 0, "d2": 0, "d3": 0}')
r = replay('harness.c16', 'sequence2[ansi,max=10,bw=10]', ARGS, 'quick')
print('REPRODUCED: ' + r if r else 'NOT-REPRODUCED')
sys.exit(1 if r else 0)

#!/verif/.venv/bin/python
# Replays a counterexample on the real code in /repo/src (no solver involved).
import os, sys, json
sys.path[:0] = ['/verif', '/repo/src']
from vf.replay import replay
ARGS = json.loads('{"a": 3, "b": 1, "c1": 2, "c2": 3, "lenient": false}')
r = replay('harness.c05', "three_parses[S1,S1,'-o']", ARGS, 'quick')
print('REPRODUCED: ' + r if r else 'NOT-REPRODUCED')
sys.exit(1 if r else 0)

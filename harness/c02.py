"""C02 - malformed command lines are rejected with the documented errors and only those.

E1 (CrossHair).  Symbolic: up to 3 tokens, each either a symbolic string (<= 3 characters over an
adversarial alphabet) or a literal from a menu chosen by a symbolic index; the leniency flag.
Concrete: the format skeleton (harness/pfmt.py), one condition per skeleton and token-length split.
"""
from clikit.api.args.exceptions import CannotParseArgsException, NoSuchOptionException
from clikit.args.argv_args import ArgvArgs
from clikit.args.default_args_parser import DefaultArgsParser

from harness import pfmt

PROPERTY = "C02"
FUNCTIONS = ["DefaultArgsParser.parse/_parse/_parse_argument/_parse_long_option/_parse_short_option/_parse_short_option_set/_add_long_option/_add_short_option/_insert_missing_command_names",
             "Args.set_option/set_argument", "Option.parse / Argument.parse", "ArgsFormat queries"]
PART = {}
EXTRA_BOUNDS = "also: options with defaults of the declared native type (S11, S12); dd_tail: 0-2 words, '--', 0-2 tokens from a 7-literal menu on 6 formats (incl. a format whose sibling on the same base object was used first); value_rule: required/optional-value option followed by each of 7 token kinds; dash_run: 3-5 dashes before a real option name; command_parse: Command.parse x configured leniency x explicit/omitted mode x 6 lines; every token line is also parsed strict then lenient on ONE parser object."
ALPHA = "-=fox1"
MENU = ["", "-", "--", "---", "--=", "-=", "null", "--opt", "--flag", "-f", "-o", "--opt=", "-fo", "-of", "--num=x", "-n", "-1", "--maybe", "-m"]
BOUNDS = {"quick": "1-2 symbolic tokens (lengths 0..3 / 0..2 over {-,=,f,o,x,1}) on 8 format skeletons, plus all 3-token lines over a per-format menu of 12-17 literals (formats S1,S2,S4,S7); strict and lenient",
          "thorough": "2 symbolic tokens of lengths <= 3 / <= 2 on all formats, 3 symbolic tokens of length 1-2 on S1/S2/S7, 3-token lines over the full literal menus (21-29 literals) of S1-S4 and the short menus of the others"}
OUTSIDE = ["token sequences of length 4-6 (property says 6)", "alphabet beyond {-,=,f,o,x,1} and the menu literals", "formats other than the 8 skeletons in harness/pfmt.py"]
STUBS = []
ASSUMPTIONS = ["documented errors = CannotParseArgsException, NoSuchOptionException, ValueError (type conversion)"]

ALLOWED = (CannotParseArgsException, NoSuchOptionException, ValueError)


def _parse(skel, tokens, lenient):
    """('ok', arguments, options) or ('exc', class name)"""
    try:
        a = DefaultArgsParser().parse(ArgvArgs(["prog"] + tokens), skel.fmt, lenient)
    except ALLOWED as e:
        return ("exc", type(e).__name__)
    return ("ok", a.arguments(False), a.options(False))


def _check(skel, tokens):
    strict = _parse(skel, list(tokens), False)      # any other exception class propagates = violation
    lenient = _parse(skel, list(tokens), True)
    # the same two questions put to ONE parser object (strict first, then lenient): the second answer is the one a fresh parser gives
    for first, second, want in ((False, True, lenient),):
        shared = DefaultArgsParser()
        for mode in (first, second):
            try:
                a = shared.parse(ArgvArgs(["prog"] + list(tokens)), skel.fmt, mode)
                got = ("ok", a.arguments(False), a.options(False))
            except ALLOWED as e:
                got = ("exc", type(e).__name__)
        if got != want:
            return False
    if lenient[0] == "exc" and lenient[1] != "ValueError":
        return False                                  # lenient never raises a parse error
    if strict[0] == "ok" and lenient != strict:
        return False                                  # strict ok => lenient identical
    return True


def tokens1(t1: str) -> bool:
    """
    pre: len(t1) == PART["l1"]
    pre: all(c in ALPHA for c in t1)
    post: _
    """
    return _check(pfmt.SKELS_ALL[PART["skel"]], [t1])


def tokens2(t1: str, t2: str) -> bool:
    """
    pre: len(t1) == PART["l1"] and len(t2) == PART["l2"]
    pre: all(c in ALPHA for c in t1) and all(c in ALPHA for c in t2)
    post: _
    """
    return _check(pfmt.SKELS_ALL[PART["skel"]], [t1, t2])


def tokens3(t1: str, t2: str, t3: str) -> bool:
    """
    pre: len(t1) == PART["l1"] and len(t2) == PART["l2"] and len(t3) == PART["l3"]
    pre: all(c in ALPHA for c in t1) and all(c in ALPHA for c in t2) and all(c in ALPHA for c in t3)
    post: _
    """
    return _check(pfmt.SKELS_ALL[PART["skel"]], [t1, t2, t3])


GENERIC = ["", "-", "--", "null", "-1", "x"]


def menu_for(skel, full):
    m = list(GENERIC) + (["---", "--=", "-=", "--zz", "-z"] if full else [])
    for o in skel.all_opts:
        m += ["--" + o.long, "--" + o.long + "=x", "--" + o.long + "="]
        if o.short:
            m += ["-" + o.short]
        if full:
            m += ["--" + o.long + "=1"]
            if o.short:
                m += ["-" + o.short + "x", "-" + o.short + "1"]
    shorts = [o.short for o in skel.all_opts if o.short]
    if len(shorts) >= 2:
        m += ["-" + shorts[0] + shorts[1]] + (["-" + shorts[1] + shorts[0]] if full else [])
    for n, al in skel.all_cmds:
        m += [n] + (list(al) if full else [])
    out = []
    for x in m:                    # (a literal may arise twice, e.g. a grouped pair that equals "-<short><letter>")
        if x not in out:
            out.append(x)
    return out


def _pick(menu, k):
    for i in range(len(menu)):
        if k == i:
            return menu[i]
    return ""


def menu3(k2: int, k3: int) -> bool:
    """
    pre: 0 <= k2 < PART["n"] and 0 <= k3 < PART["n"]
    post: _
    """
    skel = pfmt.SKELS_ALL[PART["skel"]]
    menu = menu_for(skel, PART["full"])
    from vf.sym import untraced
    return untraced(_check, skel, [menu[PART["k1"]], _pick(menu, k2), _pick(menu, k3)])      # the picked literals are concrete: the parser runs with the tracer off


def tokens_twin(t1: str, t2: str) -> bool:
    """
    pre: len(t1) == 2 and len(t2) == 1
    pre: all(c in ALPHA for c in t1) and all(c in ALPHA for c in t2)
    post: _
    """
    # reachability twin: some such line parses successfully in strict mode with an option set
    r = _parse(pfmt.S1, [t1, t2], False)
    return not (r[0] == "ok" and r[2] != {})


# ---- the right error for single faults of valid lines (skeleton S1: -f/--flag, -o/--opt <value>, <a> [<b>]) and S2 (-n INTEGER)

VAL_ALPHA = "ax1="


def _raises(skel, tokens, cls):
    try:
        DefaultArgsParser().parse(ArgvArgs(["prog"] + tokens), skel.fmt, False)
    except cls as e:
        return type(e) is cls or cls is ValueError
    return False


def fault(kind: int, v: str, w: str, long_spelling: bool) -> bool:
    """
    pre: 0 <= kind <= 6
    pre: 1 <= len(v) <= 2 and 1 <= len(w) <= 2
    pre: all(c in VAL_ALPHA for c in v) and all(c in VAL_ALPHA for c in w)
    pre: v[0] != "=" and w[0] != "="
    post: _
    """
    S1, S2 = pfmt.S1, pfmt.S2
    opt = ["--opt", v] if long_spelling else ["-o", v]
    valid = [w] + opt + ["-f"]
    if _parse(S1, valid, False) != ("ok", {"a": w}, {"opt": v, "flag": True}):
        return False
    if kind == 0:      # drop the required argument
        return _raises(S1, opt + ["-f"], CannotParseArgsException)
    if kind == 1:      # surplus positionals
        return _raises(S1, valid + [w, v], CannotParseArgsException)
    if kind == 2:      # unknown option
        return _raises(S1, valid + (["--zz"] if long_spelling else ["-z"]), NoSuchOptionException)
    if kind == 3:      # value attached to a flag
        return _raises(S1, [w, "--flag=" + v], CannotParseArgsException) and _raises(S1, [w, "--flag="], CannotParseArgsException)
    if kind == 4:      # required value stripped (option last)
        return _raises(S1, [w, "-f", opt[0]], CannotParseArgsException) and _raises(S1, [w, "--opt=", v], CannotParseArgsException)

    if kind == 5:      # value of the wrong type
        return _raises(S2, ["--num", "x" + v] if long_spelling else ["-n", "x" + v], ValueError)
    # required value stripped, next token is another option
    return _raises(S1, [w, opt[0], "-f"], CannotParseArgsException)


# ---- everything after the first '--' is positional: the outcome is decided by counting
TAIL_MENU = ["--", "-f", "", "x", "--zz", "-", "--opt=1"]
DD_SKELS = {"S1": (1, 2, False), "S2": (0, None, True), "S6": (0, 0, False), "S8": (2, None, True), "S14B": (1, 1, False), "B14": (1, 1, False)}       # (required, capacity or None, last is multi-valued)


def _dd_case(skel_name, nbefore, t1, t2, ntail, lenient):
    skel = pfmt.SKELS_ALL[skel_name]
    required, capacity, multi = DD_SKELS[skel_name]
    before = ["p%d" % i for i in range(nbefore)]
    tail = [t1, t2][:ntail]
    tokens = before + ["--"] + tail
    pos = before + tail
    names = [a.name for a in skel.all_args]
    for wskel, wtokens in skel.warm:           # a format derived from the same base object was used first
        DefaultArgsParser().parse(ArgvArgs(["prog"] + list(wtokens)), wskel.fmt, True)
    try:
        a = DefaultArgsParser().parse(ArgvArgs(["prog"] + tokens), skel.fmt, lenient)
        got = ("ok", a.arguments(False), a.options(False))
    except CannotParseArgsException:
        got = ("cannot-parse",)
    fits = capacity is None or len(pos) <= capacity
    if not lenient and (len(pos) < required or not fits):
        return got == ("cannot-parse",)
    if got[0] != "ok" or got[2] != {}:
        return False                          # nothing after (or before) the separator is an option here
    if not fits:
        pos = pos[:capacity]                   # lenient: surplus positionals are dropped
    exp = {}
    for i, v in enumerate(pos):
        if multi and i >= len(names) - 1:
            exp.setdefault(names[-1], []).append(v)
        else:
            exp[names[i]] = v
    return got[1] == exp


def dd_tail(nbefore: int, k1: int, k2: int, ntail: int, lenient: bool) -> bool:
    """
    pre: 0 <= nbefore <= 2 and 0 <= ntail <= 2 and 0 <= k1 < len(TAIL_MENU) and 0 <= k2 < len(TAIL_MENU)
    pre: ntail > 0 or k1 == 0
    pre: ntail > 1 or k2 == 0
    post: _
    """
    from vf.sym import conc_bool, conc_int, untraced
    return untraced(_dd_case, PART["skel"], conc_int(nbefore, 0, 2), TAIL_MENU[conc_int(k1, 0, len(TAIL_MENU) - 1)], TAIL_MENU[conc_int(k2, 0, len(TAIL_MENU) - 1)],
                    conc_int(ntail, 0, 2), conc_bool(lenient))


# ---- the value of a value-taking option: never a dash token, never the separator
NEXT = ["word", "--flag", "-f", "--", "-", "--zz", "-fo"]


def _value_rule_case(kind, spell, k_next, third, lenient):
    nxt = NEXT[k_next]
    rest = ["t"] if third else []
    if kind == 0:        # S1: -o/--opt REQUIRES a value; <a> [<b>]
        skel = pfmt.S1
        tokens = ["p", ["--opt", "-o"][spell], nxt] + rest
        if nxt == "word":
            exp = ("ok", {"a": "p", **({"b": "t"} if third else {})}, {"opt": "word"})
        elif nxt == "-":
            exp = ("ok", {"a": "p", **({"b": "t"} if third else {})}, {"opt": "-"}) if False else None      # a lone '-' is not decided by the statement
        else:
            exp = ("CannotParseArgsException",)          # the required value was left out, whatever follows
    else:                # S2: -m/--maybe takes an OPTIONAL value (default 'dflt'); [<rest>...]
        skel = pfmt.S2
        tokens = [["--maybe", "-m"][spell], nxt] + rest
        if nxt == "word":
            exp = ("ok", {"rest": ["t"]} if third else {}, {"maybe": "word"})
        elif nxt == "--":
            exp = ("ok", {"rest": ["t"]} if third else {}, {"maybe": "dflt"})
        else:
            exp = None     # the next token is an (unknown / known) option of its own: covered by the generic contracts
    if exp is None:
        return True
    try:
        a = DefaultArgsParser().parse(ArgvArgs(["prog"] + tokens), skel.fmt, lenient)
        got = ("ok", a.arguments(False), a.options(False))
    except (CannotParseArgsException, NoSuchOptionException) as e:
        got = (type(e).__name__,)
    if lenient:
        return got[0] == "ok" and (exp[0] != "ok" or got == exp)
    return got == exp


def value_rule(kind: int, spell: int, k_next: int, third: bool, lenient: bool) -> bool:
    """
    pre: 0 <= kind <= 1 and 0 <= spell <= 1 and 0 <= k_next < len(NEXT)
    post: _
    """
    from vf.sym import conc_bool, conc_int, untraced
    return untraced(_value_rule_case, conc_int(kind, 0, 1), conc_int(spell, 0, 1), conc_int(k_next, 0, len(NEXT) - 1), conc_bool(third), conc_bool(lenient))


# ---- a run of three or more dashes is never an option, whatever follows it
def _dash_run_case(skel_name, k, oi, form, lenient):
    skel = pfmt.SKELS_ALL[skel_name]
    o = skel.all_opts[oi % len(skel.all_opts)]
    name = o.long if form == 0 or not o.short else o.short
    token = "-" * k + name + ("=1" if form == 2 else "")
    try:
        a = DefaultArgsParser().parse(ArgvArgs(["prog", token]), skel.fmt, lenient)
        got = ("ok", a.options(False))
    except (CannotParseArgsException, NoSuchOptionException) as e:
        got = (type(e).__name__,)
    if lenient:
        return got == ("ok", {})
    return got == ("NoSuchOptionException",)


def dash_run(k: int, oi: int, form: int, lenient: bool) -> bool:
    """
    pre: 3 <= k <= 5 and 0 <= oi <= 2 and 0 <= form <= 2
    post: _
    """
    from vf.sym import conc_bool, conc_int, untraced
    return untraced(_dash_run_case, PART["skel"], conc_int(k, 3, 5), conc_int(oi, 0, 2), conc_int(form, 0, 2), conc_bool(lenient))


# ---- the same rules through Command.parse: an explicit mode wins over the command's configured leniency
def _command_parse_case(configured, explicit, li):
    from clikit.api.args.format.argument import Argument
    from clikit.api.args.format.option import Option
    from clikit.api.command.command import Command
    from clikit.api.config.command_config import CommandConfig
    cc = CommandConfig("cmd")
    cc.add_argument("a", Argument.REQUIRED)
    cc.add_option("flag", "f")
    cc.add_option("opt", "o", Option.REQUIRED_VALUE)
    if configured:
        cc.enable_lenient_args_parsing()
    cmd = Command(cc)
    line, fault = [(["x"], None), (["x", "--zz"], "NoSuchOptionException"), (["x", "--flag=1"], "CannotParseArgsException"), (["x", "-o"], "CannotParseArgsException"),
                   ([], "CannotParseArgsException"), (["x", "y"], "CannotParseArgsException")][li]
    raw = ArgvArgs(["prog"] + line)
    try:
        if explicit == 2:
            cmd.parse(raw)
        else:
            cmd.parse(raw, explicit == 1)
        got = None
    except (CannotParseArgsException, NoSuchOptionException) as e:
        got = type(e).__name__
    effective_lenient = configured if explicit == 2 else (explicit == 1)
    return got == (None if effective_lenient else fault)


def command_parse(configured: bool, explicit: int, li: int) -> bool:
    """
    pre: 0 <= explicit <= 2 and 0 <= li <= 5
    post: _
    """
    from vf.sym import conc_bool, conc_int, untraced
    return untraced(_command_parse_case, conc_bool(configured), conc_int(explicit, 0, 2), conc_int(li, 0, 5))


def conditions(tier):
    quick = tier == "quick"
    t = 150 if quick else 600
    conds = []
    skels = sorted(pfmt.SKELS) + sorted(pfmt.SKELS_NATIVE)
    for sk in skels:
        for l1 in range(0, 4):
            conds.append({"name": "tokens1[%s,%d]" % (sk, l1), "fn": tokens1, "timeout": t, "part": {"skel": sk, "l1": l1},
                          "bounds": "format %s, one token of length %d over {-,=,f,o,x,1}, strict+lenient" % (sk, l1)})
        lens2 = [(a, b) for a in range(0, 3) for b in range(0, 3)] if quick else [(a, b) for a in range(0, 4) for b in range(0, 3)]
        if quick and sk not in ("S1", "S2", "S6"):
            lens2 = [(2, 1), (2, 2)]
        if sk in pfmt.SKELS_NATIVE:
            lens2 = []
        for l1, l2 in lens2:
            conds.append({"name": "tokens2[%s,%d,%d]" % (sk, l1, l2), "fn": tokens2, "timeout": t, "part": {"skel": sk, "l1": l1, "l2": l2},
                          "bounds": "format %s, two tokens of lengths %d,%d" % (sk, l1, l2)})
        if not quick and sk in ("S1", "S2", "S7"):
            for l1, l2, l3 in [(a, b, c) for a in (1, 2) for b in (1, 2) for c in (1, 2)]:
                conds.append({"name": "tokens3[%s,%d,%d,%d]" % (sk, l1, l2, l3), "fn": tokens3, "timeout": t, "part": {"skel": sk, "l1": l1, "l2": l2, "l3": l3},
                              "bounds": "format %s, three tokens of lengths %d,%d,%d" % (sk, l1, l2, l3)})
        full = (not quick) and sk in ("S1", "S2", "S3", "S4")
        menu = menu_for(pfmt.SKELS_ALL[sk], full)
        for k1 in (range(len(menu)) if (not quick or sk in ("S1", "S2", "S4", "S7", "S11", "S12")) else []):
            conds.append({"name": "menu3[%s,%r]" % (sk, menu[k1]), "fn": menu3, "timeout": t, "part": {"skel": sk, "k1": k1, "n": len(menu), "full": full},
                          "bounds": "format %s, first token %r, second and third token any of the %d menu literals %r" % (sk, menu[k1], len(menu), menu)})
    for sk in sorted(DD_SKELS):
        conds.append({"name": "dd_tail[%s]" % sk, "fn": dd_tail, "timeout": t, "part": {"skel": sk},
                      "bounds": "format %s: 0-2 plain words, '--', then 0-2 tokens from %r (everything after the first '--' is positional): strict accepts exactly when the number of positionals fits, with every one of them assigned in order; lenient never fails" % (sk, TAIL_MENU)})
    for sk in ("S1", "S2", "S11"):
        conds.append({"name": "dash_run[%s]" % sk, "fn": dash_run, "timeout": t, "part": {"skel": sk},
                      "bounds": "format %s: 3-5 dashes directly followed by the long or short name of one of its options (also with '=1'): strict reports an unknown option, lenient sets nothing" % sk})
    conds.append({"name": "command_parse", "fn": command_parse, "timeout": t,
                  "bounds": "Command.parse on a command configured strict / lenient, called with lenient=False / True / left out, on a valid line and 5 single faults: the explicit mode wins, the configured one applies when it is left out"})
    conds.append({"name": "value_rule", "fn": value_rule, "timeout": t,
                  "bounds": "a value-taking option (required value on S1, optional value on S2; long and short spelling) followed by a token from %r and optionally one more word: a dash token or the separator is never taken as the value - "
                            "strict rejects a left-out required value with the cannot-parse error whatever follows, an optional value falls back to its default, lenient never fails" % (NEXT,)})
    conds.append({"name": "tokens_twin", "fn": tokens_twin, "timeout": t, "expect": "refute", "part": {"skel": "S1"}, "bounds": "reachability twin"})
    conds.append({"name": "fault", "fn": fault, "timeout": t, "bounds": "7 single-fault mutations of a valid line, values 1-2 chars over {a,x,1,=}, long/short spelling"})
    return conds

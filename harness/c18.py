"""C18 - questions return only valid answers, count attempts exactly and terminate.

E1 (CrossHair), finite domains split by the solver (the validator and the confirmation use `re`):
typed answers are symbolic strings over an adversarial alphabet, scripts are lines chosen by symbolic
indices, attempt limits and the end-of-input position are symbolic.  Non-termination is turned into a
counterexample by a read budget on the input stream (raises a BaseException the library cannot swallow).
"""
import clikit.ui.components.question as qmod
from clikit.api.io import IO, Input, Output
from clikit.api.io.input_stream import InputStream
from clikit.formatter import PlainFormatter
from clikit.io.output_stream.buffered_output_stream import BufferedOutputStream
from clikit.ui.components.choice_question import ChoiceQuestion, SelectChoiceValidator
from clikit.ui.components.confirmation_question import ConfirmationQuestion
from clikit.ui.components.question import Question

from vf.sym import conc_bool, conc_int, conc_str, untraced

PROPERTY = "C18"
FUNCTIONS = ["SelectChoiceValidator.validate", "ChoiceQuestion.__init__/_write_prompt", "Question.ask/_do_ask/_validate_attempts/_read_from_input/_write_error",
             "ConfirmationQuestion._get_default_normalizer", "Input.read_line/is_interactive", "IO.read_line/error/error_line"]
PART = {}
EXTRA_BOUNDS = 'also: a list with surrounding blanks and a one-entry list; the same question object asked again after a failed / aborted / successful dialogue; patterns (?i)^y, ^(j|ja)$, ^Y over {y,Y,n,j,J,a,space}; a 5 s deadline turns a non-interactive question that asks forever into a counterexample.'
BOUNDS = {"quick": "validator: 8 choice lists (numeric-looking, duplicated, spaced inside and around, case-differing, a single entry) x single/multi-select x every answer <= 3 chars over {a,b,A,0,1,2,-,space,comma}; dialogues: scripts of <= 3 lines from a 9-line menu x end-of-input after 0..3 lines x attempts {unlimited,1,2,3} x default none/index; "
                   "confirmation: 2 patterns x defaults x answers <= 3 chars over {y,Y,n,j,a,space}; non-interactive questions",
          "thorough": "answers <= 4 chars, scripts of 4 lines"}
OUTSIDE = ["hidden questions / autocompletion (need a tty; `stty` is stubbed as unavailable)", "choice lists longer than 4 entries", "answers longer than stated"]
STUBS = ["Question._has_stty_available -> False", "input = pure-Python InputStream yielding the scripted lines, '' at end of input, with a read budget of 12 reads (exceeding it raises ReadBudgetExceeded(BaseException))"]
ASSUMPTIONS = ["typing a text that is itself a choice value selects that value (precedence over reading it as an index): the validator's documented order",
               "an empty line with no default is an invalid entry (consumes an attempt)"]

qmod.Question._has_stty_available = lambda self: False


class ReadBudgetExceeded(BaseException):
    pass


class Script(InputStream):
    def __init__(self, lines):
        self.lines = list(lines)
        self.reads = 0

    def read_line(self, length=None):
        self.reads += 1
        if self.reads > 12:
            raise ReadBudgetExceeded()
        return (self.lines.pop(0) + "\n") if self.lines else ""

    def read(self, length):
        return ""

    def close(self):
        pass

    def is_closed(self):
        return False


def _io(lines):
    st = Script(lines)
    out, err = BufferedOutputStream(), BufferedOutputStream()
    return IO(Input(st), Output(out, PlainFormatter()), Output(err, PlainFormatter())), st, out, err


LISTS = [["a", "b"], ["a", "b", "a"], ["1", "0", "x"], ["a b", "ab", "b"], ["A", "a", "2"], ["10", "b", "-1", "1"], [" a", "b ", "a", "1 "], ["only"]]
ANS_ALPHA = "abA012- ,"
WORD = "abcdefghijklmnopqrstuvwxyzABCDEFGHIJKLMNOPQRSTUVWXYZ0123456789_-"


def _resolve_one(choices, value):
    """Reference: the member denoted by one typed entry, or 'ERR'."""
    hits = [i for i, c in enumerate(choices) if c == value]
    if len(hits) > 1:
        return "ERR"
    if len(hits) == 1:
        return choices[hits[0]]
    v = value.strip()
    digits = v[1:] if v[:1] in "+-" else v
    if digits and all(c in "0123456789" for c in digits):       # what int() accepts over this alphabet (no '_' here)
        k = int(v)
        if 0 <= k < len(choices):
            return choices[k]
    return "ERR"


def _reference(choices, multi, answer):
    if not multi:
        return _resolve_one(choices, answer)
    collapsed = answer.replace(" ", "")
    parts = collapsed.split(",")
    if collapsed == "" or any(p == "" or any(c not in WORD for c in p) for p in parts):
        return "ERR"
    out = []
    for p in parts:
        r = _resolve_one(choices, p)
        if r == "ERR":
            return "ERR"
        out.append(r)
    return out


def _validate_case(li, multi, answer):
    choices = LISTS[li]
    q = ChoiceQuestion("pick", list(choices))
    q.set_multi_select(multi)
    try:
        got = SelectChoiceValidator(q).validate(answer)
    except ValueError:
        got = "ERR"
    exp = _reference(choices, multi, answer)
    if got != exp:
        return False
    if got != "ERR":                    # only members (or a non-empty list of members)
        if multi:
            return isinstance(got, list) and len(got) >= 1 and all(g in choices for g in got)
        return got in choices
    return True


def validate(answer: str, multi: bool) -> bool:
    """
    pre: len(answer) == PART["n"]
    pre: all(c in ANS_ALPHA for c in answer)
    post: _
    """
    return untraced(_validate_case, PART["list"], conc_bool(multi), conc_str(answer, ANS_ALPHA))


def validate_twin(answer: str, multi: bool) -> bool:
    """
    pre: len(answer) == 3
    pre: all(c in ANS_ALPHA for c in answer)
    post: _
    """
    a = conc_str(answer, ANS_ALPHA)
    return not (conc_bool(multi) and untraced(_reference, LISTS[0], True, a) == ["b", "a"])


def index_value_interchangeable(i: int, multi: bool) -> bool:
    """
    pre: 0 <= i < 4
    post: _
    """
    li = PART["list"]
    choices = LISTS[li]
    i = conc_int(i, 0, 3)
    if i >= len(choices):
        return True
    return untraced(_interchange_case, li, i, conc_bool(multi))


def _interchange_case(li, i, multi):
    choices = LISTS[li]
    value = choices[i]
    if choices.count(value) > 1 or str(i) in choices:
        return True                       # ambiguous value / the index text is itself a value: documented precedence
    if multi and any(c not in WORD for c in value.replace(" ", "")):
        return True
    if multi and value.replace(" ", "") != value:
        return True                       # multi-select collapses spaces: a spaced value cannot be typed
    q = ChoiceQuestion("pick", list(choices))
    q.set_multi_select(multi)
    v = SelectChoiceValidator(q)
    return v.validate(str(i)) == v.validate(value)


LINES = ["", "a", "b", "0", "1", "zz", "9", "-1", " b "]


def _dialogue_model(choices, lines, attempts, default):
    """Reference dialogue: (outcome, reads, errors)."""
    left = attempts
    reads = errors = 0
    pending = list(lines)
    last = None
    while left is None or left > 0:
        if last is not None:
            errors += 1
        reads += 1
        if not pending:
            return ("aborted", reads, errors)
        line = pending.pop(0).strip()
        value = line if line != "" else default
        r = "ERR" if value is None else _resolve_one(choices, value)
        if r != "ERR":
            return (r, reads, errors)
        last = "invalid"
        if left is not None:
            left -= 1
    return ("failed", reads, errors)


def _dialogue_case(li, idx, nlines, attempts, use_default, prior=0):
    choices = LISTS[li]
    lines = [LINES[k] for k in idx[:nlines]]
    default = ("1" if len(choices) > 1 else "0") if use_default else None          # (a default must denote a choice)
    q = ChoiceQuestion("pick", list(choices), default)
    q.set_max_attempts(attempts)
    if prior:
        # the same question object was already asked once (on another I/O) and that dialogue ended by failing / at end of input / with an answer
        # after an invalid entry: nothing of it may show in this dialogue
        pio = _io([["zz", "zz", "zz"], ["zz"], ["zz", "a"]][prior - 1])[0]
        try:
            q.ask(pio)
        except ReadBudgetExceeded:
            return False
        except Exception:  # noqa - how the earlier dialogue ended is the business of the conditions without a prior dialogue
            pass
    io, st, out, err = _io(lines)
    try:
        got = q.ask(io)
        outcome = got
    except ReadBudgetExceeded:
        return False                     # asked forever
    except RuntimeError:
        outcome = "aborted"
    except ValueError:
        outcome = "failed"
    except Exception:
        outcome = "failed"               # e.g. AttributeError for an empty line without default, re-raised after the last attempt
    text = err.fetch()
    errors = text.count("is invalid") + text.count("ambiguous") + text.count("object has no attribute")
    exp = _dialogue_model(choices, lines, attempts, default)
    if (outcome, st.reads, errors) != exp:
        return False
    if outcome not in ("aborted", "failed") and outcome not in choices:
        return False
    return out.fetch() == ""             # questions talk on the error stream only


def dialogue(k0: int, k1: int, k2: int, nlines: int, attempts: int, use_default: bool) -> bool:
    """
    pre: 0 <= k0 < len(LINES) and 0 <= k1 < len(LINES) and 0 <= k2 < len(LINES)
    pre: 0 <= nlines <= 3 and 0 <= attempts <= 3
    pre: nlines > 0 or k0 == 0
    pre: nlines > 1 or k1 == 0
    pre: nlines > 2 or k2 == 0
    pre: PART.get("attempts") is None or attempts == PART["attempts"]
    post: _
    """
    idx = [conc_int(k, 0, len(LINES) - 1) for k in (k0, k1, k2)]
    att = conc_int(attempts, 0, 3)
    return untraced(_dialogue_case, PART["list"], idx, conc_int(nlines, 0, 3), None if att == 0 else att, conc_bool(use_default), PART.get("prior", 0))


def dialogue_twin(k0: int, k1: int, k2: int, nlines: int, attempts: int, use_default: bool) -> bool:
    """
    pre: 0 <= k0 < len(LINES) and 0 <= k1 < len(LINES) and k2 == 0
    pre: nlines == 2 and attempts == 0 and not use_default
    post: _
    """
    idx = [conc_int(k, 0, len(LINES) - 1) for k in (k0, k1, k2)]
    ok = untraced(_dialogue_case, 0, idx, 2, None, False)
    return not (ok and untraced(_dialogue_model, LISTS[0], [LINES[idx[0]], LINES[idx[1]]], None, None) == ("aborted", 3, 2))


CONF_ALPHA = "yYnjJa "


def _confirm_case(pattern_i, default, answer, eof):
    regex, matcher = [("(?i)^y", lambda a: a[:1] in ("y", "Y")), ("^(j|ja)$", lambda a: a in ("j", "ja")), ("^Y", lambda a: a[:1] == "Y")][pattern_i]
    q = ConfirmationQuestion("sure", default, regex)
    io, st, out, err = _io([] if eof else [answer])
    try:
        got = q.ask(io)
    except ReadBudgetExceeded:
        return False
    except RuntimeError:
        return eof and st.reads == 1
    if eof:
        return False
    typed = answer.strip()
    exp = default if typed == "" else matcher(typed)
    return got is exp and st.reads == 1 and out.fetch() == ""


def confirm(answer: str, default: bool, pattern: int, eof: bool) -> bool:
    """
    pre: len(answer) <= PART["n"]
    pre: all(c in CONF_ALPHA for c in answer)
    pre: 0 <= pattern <= 2 and pattern == PART["pattern"]
    post: _
    """
    return untraced(_confirm_case, conc_int(pattern, 0, 2), conc_bool(default), conc_str(answer, CONF_ALPHA), conc_bool(eof))


def _non_interactive_case(kind, default_i):
    default = [None, "1", True, False, "dflt"][default_i]
    if kind == 0:
        q = Question("name", default)
    elif kind == 1:
        q = ChoiceQuestion("pick", ["a", "b"], default if isinstance(default, str) and default.isdigit() else None)
        default = q.default
    elif kind == 2:
        q = ConfirmationQuestion("sure", default if isinstance(default, bool) else True)
        default = q.default
    else:
        q = Question("name", default)
        q.set_validator(lambda v: v)
    io, st, out, err = _io(["a", "b"])
    io.set_interactive(False)
    from vf.sym import DeadlineExceeded, deadline
    try:
        with deadline(5):
            got = q.ask(io)
    except DeadlineExceeded:
        return False                  # asked forever although nobody is there to answer
    return got == default and st.reads == 0 and out.fetch() == "" and err.fetch() == ""


def non_interactive(kind: int, default_i: int) -> bool:
    """
    pre: 0 <= kind <= 3 and 0 <= default_i <= 4
    post: _
    """
    return untraced(_non_interactive_case, conc_int(kind, 0, 3), conc_int(default_i, 0, 4))


def conditions(tier):
    quick = tier == "quick"
    t = 100 if quick else 1200
    conds = []
    for li in range(len(LISTS)):
        for n in range(0, (3 if quick else 4) + 1):
            conds.append({"name": "validate[%d,len=%d]" % (li, n), "fn": validate, "timeout": t, "part": {"list": li, "n": n},
                          "bounds": "choices %r, single and multi-select, every answer of length %d over {a,b,A,0,1,2,-,space,comma}" % (LISTS[li], n)})
        conds.append({"name": "index_value[%d]" % li, "fn": index_value_interchangeable, "timeout": t, "part": {"list": li},
                      "bounds": "choices %r: typing index i and typing choices[i] give the same answer" % LISTS[li]})
        for att in range(4):
            conds.append({"name": "dialogue[%d,attempts=%s]" % (li, att or "unlimited"), "fn": dialogue, "timeout": t, "part": {"list": li, "attempts": att},
                          "bounds": "choices %r; scripts of 0-3 lines from %r then end of input; attempts %s; default none or '1'" % (LISTS[li], LINES, att or "unlimited")})
    for prior, pn in ((1, "failed or aborted after three invalid entries"), (2, "aborted at end of input after one invalid entry"), (3, "answered after one invalid entry")):
        for att in ((0, 2) if quick else range(4)):
            conds.append({"name": "dialogue_again[attempts=%s,earlier dialogue %s]" % (att or "unlimited", pn), "fn": dialogue, "timeout": t, "part": {"list": 0, "attempts": att, "prior": prior},
                          "bounds": "the SAME question object asked a second time (first dialogue: %s): scripts of 0-3 lines from %r then end of input; attempts %s" % (pn, LINES, att or "unlimited")})
    conds.append({"name": "validate_twin", "fn": validate_twin, "timeout": t, "expect": "refute", "part": {"list": 0, "n": 3}, "bounds": "reachability twin"})
    conds.append({"name": "dialogue_twin", "fn": dialogue_twin, "timeout": t, "expect": "refute", "part": {"list": 0}, "bounds": "reachability twin (two invalid lines, then end of input, unlimited attempts)"})
    for pi, pat in enumerate(["(?i)^y", "^(j|ja)$", "^Y"]):
      conds.append({"name": "confirm[%s]" % pat, "fn": confirm, "timeout": t, "part": {"n": 3 if quick else 4, "pattern": pi},
                  "bounds": "patterns (?i)^y, ^(j|ja)$ and ^Y (the last two case-sensitive), defaults yes/no, every answer <= %d chars over {y,Y,n,j,J,a,space}, end of input" % (3 if quick else 4)})
    conds.append({"name": "non_interactive", "fn": non_interactive, "timeout": t, "bounds": "plain / choice / confirmation / validated question x 5 defaults on a non-interactive input"})
    return conds

#!/verif/.venv/bin/python
# Replays a counterexample on the real code in /repo/src (no solver involved).
import os, sys, json
sys.path[:0] = ['/verif', '/repo/src']
from vf.replay import replay
ARGS = json.loads('{"o1": 1, "o2": 3, "o3": 3, "o4": 0, "exit_kind": 2, "ansi": false, "pre_spins": 0, "interval_s": 2}')
r = replay('harness.c19', 'auto[exit=KeyboardInterrupt]', ARGS, 'quick')
print('REPRODUCED: ' + r if r else 'NOT-REPRODUCED')
sys.exit(1 if r else 0)

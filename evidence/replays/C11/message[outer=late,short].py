#!/verif/.venv/bin/python
# Replays a counterexample on the real code in /repo/src (no solver involved).
import os, sys, json
sys.path[:0] = ['/verif', '/repo/src']
from vf.replay import replay
ARGS = json.loads('{"p0": 0, "p1": 1, "p2": 1, "p3": 5, "p4": 0, "ti": 5, "tj": 0, "short": true}')
r = replay('harness.c11', 'message[outer=late,short]', ARGS, 'quick')
print('REPRODUCED: ' + r if r else 'NOT-REPRODUCED')
sys.exit(1 if r else 0)
